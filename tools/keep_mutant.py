#!/usr/bin/env python3
"""keep_mutant.py <name> <property> <mutant dir> <caught: yes|no> "<needs>" "<signatures seen / why missed>"
Copies a confirmed seeded change into /verif/seeded/<name>/ with meta.json."""
import json, os, shutil, sys
name, prop, mdir, caught, needs, sigs = sys.argv[1:7]
dst = os.path.join('/verif/seeded', name); os.makedirs(dst, exist_ok=True)
for f in ('patch.diff', 'demo.rs', 'demo.diff', 'notes.md'):
    if os.path.exists(os.path.join(mdir, f)): shutil.copy(os.path.join(mdir, f), dst)
confirm = open(os.path.join(mdir, 'confirm.txt')).read().strip() if os.path.exists(os.path.join(mdir, 'confirm.txt')) else 'NOT CONFIRMED'
meta = {"property": prop, "needs_to_manifest": needs, "confirmed_in_scratch_worktree": confirm,
        "what_i_ran": ["tools/confirm_mutant.sh (full workspace suite with the change; demonstration with and without the change)",
                       "tools/try_mutant.sh %s patch.diff (git -C /repo apply; ./check %s --tier quick; git -C /repo checkout -- .)" % (prop, prop)],
        "caught_by_quick_check": caught == 'yes', "observed": sigs, "source": "independent sub-agent given only the property text and a scratch worktree"}
json.dump(meta, open(os.path.join(dst, 'meta.json'), 'w'), indent=1)
print("kept", dst, "|", confirm)
