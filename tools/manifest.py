#!/usr/bin/env python3
"""Regenerates /verif/MANIFEST.json from the table below; a property is claimed only when its
monitor module exists in harness/src/props/."""
import json, os
ROOT = os.path.dirname(os.path.dirname(os.path.abspath(__file__)))
T = {
 "C01": ("reference-model + invariant monitors (sum of balances = supply, no residue, event-log fold) over generated call histories on six real token flavours",
         "Runs the real token code for tens of thousands of calls in long adversarial histories and compares the whole observable state with an independent model after every call; conservation is a property of every reachable state, so observing many reachable states with a full-state oracle is the strongest thing a run-time technique can give."),
 "C02": ("exact-authorization monitor: every authorizing subset per entry point, allowance reference model at expiry boundaries, balance-decrease monitor",
         "Calls are made under exactly chosen authorization sets (not mock_all_auths), so a missing or misplaced require_auth is an observable success; allowances are probed on the ledger lattice of each expiry under two temp-TTL configurations."),
 "C03": ("reference matcher for rule precedence + offline checker over policy/verifier call logs, crafted __check_auth payloads",
         "The real multisig account's __check_auth is probed with generated rule sets, contexts and signer sets and compared with an independent matcher; policy/verifier call logs are checked for exactly-once."),
 "C04": ("gate reference model (2^7 sweep per transfer entry point) + frozen<=balance invariant + exactly-once compliance-hook log checker (token side and, through the library's dispatcher, module side with per-module hook subscriptions) + identity gate end to end over the real identity-verifier stack + tokens that are not wired up",
         "All combinations of closed gates are driven against the real RWA overrides with instrumented compliance/identity contracts; random supervisory histories check freeze bookkeeping."),
 "C05": ("differential BigInt oracle for all conversions/previews + share-price monotonicity invariant + exact-authorization histories on the real vault example + configuration setters reachable exactly once",
         "Every vault call is compared with exact rational arithmetic and the cross-multiplied exchange-rate invariant is asserted after every successful operation, across decimals offsets 0..=10 and amounts up to 2^126."),
 "C06": ("exact-authorization monitor + role-membership reference model + bijective index-table invariant, incl. the list of existing roles at its limit of 256",
         "Grant/revoke/renounce/admin histories from every kind of caller under every authorizing subset; all getters compared with a model set after every call."),
 "C07": ("latest-offer reference model with ledger moves to the expiry lattice of every offer ever made, exact authorization",
         "The two-step handshake is driven through offer/replace/cancel/accept/renounce histories with min_temp_entry_ttl=1 and the holder observed after every call."),
 "C08": ("timelock state-machine reference model (both ways of consuming an operation) + target-invocation log checker + the controller example's self-administration sweep + never-initialised timelock",
         "Schedule/cancel/execute/set_min_delay histories with ledger moves to ready-1/ready/ready+1 of every pending operation; target invoked exactly once per successful execute."),
 "C09": ("systematic end-to-end payload sweep against the real timelock-controller __check_auth with before/after effect observation + reference model (operation table, minimum delay, role table) over long-lived controller histories",
         "Every admin-only entry point x operation state x payload shape x executor variant is attempted end to end with hand-built authorization entries; any effect without a consumed Ready operation is a violation."),
 "C10": ("ownership-map reference model, full id sweeps, enumeration permutation invariant on three NFT flavours",
         "owner_of is compared with the model for every id in range (plus margin) repeatedly during histories of mint/batch-mint/transfer/burn; enumerations checked as permutations."),
 "C11": ("exact-authorization monitor + approval/operator reference model at expiry lattices",
         "Transfers, burns and approvals by owner / approved / operator / former owner / stranger under every authorizing subset; approvals observed for all ids after every call."),
 "C12": ("differential oracle: exact BigInt arithmetic vs plain and checked variants, exhaustive boundary lattice cubed + random bit-length classes + Wad::pow along the edge of the representable range (bisection on the reference)",
         "The lattice part enumerates its finite space completely; the random part samples every (bits(x),bits(y),boundary denominator) class so phantom overflow is hit by construction."),
 "C13": ("voting-timeline reference model; offline immutability-of-the-past checker over repeated historical queries",
         "Every account x many past ledgers is queried at every ledger close and again at history end and compared with the model's end-of-ledger values."),
 "C14": ("exhaustive signer-subset/threshold sweep; full-history rolling-window recomputation for spending limits (periods up to u32::MAX); can_enforce == enforce agreement; accounts that never installed the policy",
         "The real policy examples are driven with every threshold and signer subset, and spending histories around window edges are re-summed independently of the contract's cache."),
 "C15": ("iff-oracle over registries modelled from their edit history and claims with real signatures of all three schemes, incl. a scripted non-conforming issuer, a scripted identity contract under its holder's control, and half-wired verifiers",
         "verify_identity and is_claim_valid are compared with a model of 'every required topic has a valid claim from a currently trusted issuer' across registry edit histories and claim defects."),
 "C16": ("reference models for pause flag, allow/block lists, cap (also never set) and migration flag with exact authorization on gated entry points, stacked guard macros",
         "Every guarded entry point of the real examples is attempted in every list/flag assignment; success with a vetted party disallowed/blocked or while paused is a violation."),
 "C17": ("differential oracle with an independent Merkle tree builder, single-corruption sweep (incl. special-valued and ill-typed proof entries), claimed-set reference model over root changes, unfunded airdrops and distributors without root",
         "Honest proofs must verify and every single corruption must not, for all leaves of trees of 1..=33 (thorough 257) leaves and both hashers; the distributor's claimed set is modelled over claim histories."),
 "C18": ("differential oracle: genuine assertions vs single corruptions, all 256 flag bytes, client-data shapes, key / signature byte strings of other lengths, independent RFC 4648 encoder, extract_from_bytes vs slice model",
         "Real P-256/Ed25519 signatures are generated and each field corrupted one at a time against the real verifier examples; the encoder is compared exhaustively for lengths 0-2."),
 "C19": ("exact-authorization monitor with tuple variants + fee/allowance/target-log reference model + allow-list enumeration invariant + no-residue check, on both forwarder examples and on collect_fee directly + sweep of collected fees",
         "Both fee forwarder examples are driven with fee/max/expiration lattices, every authorizing subset and authorization tuples differing in one field; balances and the target's call log are compared with the model."),
 "C20": ("one set/map reference model per registry, all getters compared after every operation, limits at and past capacity (thorough: the binder at 10 000 and the document registry at 5 000 entries, with coverage floors)",
         "Eight registries under add/remove/update histories over tiny key universes, biased to swap-remove edges and capacity limits."),
}
NOTE = "Trusted: the Soroban test host (native execution, rollback, require_auth, TTL, crypto), oracle crates (num-bigint, RustCrypto), and that bounded generated histories are representative; a defect needing a longer/wider history than generated is out of reach. Sanitizers/Miri do not apply (no unsafe, no threads; nightly cannot build soroban-env-common) - see DESIGN.md section 1."
def main():
    checks, na = [], []
    for pid in sorted(T):
        tech, text = T[pid]
        if os.path.exists(os.path.join(ROOT, "harness/src/props", pid.lower() + ".rs")):
            checks.append({
                "property_id": pid,
                "quick_cmd": "./check %s --tier quick" % pid,
                "thorough_cmd": "./check %s --tier thorough" % pid,
                "evidence_file": "/verif/evidence/%s.json" % pid,
                "replay_cmd_template": "./check %s --replay {path}" % pid,
                "engine": "monitor",
                "level_claimed": {"category": "exploration", "text": text, "design_ref": "DESIGN.md section 4, " + pid},
                "level_note": NOTE,
                "technique": "runtime monitoring: " + tech,
            })
        else:
            na.append({"property_id": pid, "reason": "monitor designed (DESIGN.md section 4) but not built yet; will be claimed once its check exists and is silent on the unchanged tree"})
    hooks_file = os.path.join(ROOT, "hooks_commits.txt")
    commits = [l.split()[0] for l in open(hooks_file)] if os.path.exists(hooks_file) else []
    m = {
        "version": 1,
        "setup_cmd": "./check setup",
        "hooks": {
            "guard": "--cfg openzeppelin_stellar_contracts_verif",
            "enable": "none needed: all observation goes through public getters, storage keys, events and instrumented counterpart contracts; no source hooks are installed",
            "baseline_off_cmd": "cd /repo && RUSTUP_TOOLCHAIN=stable-x86_64-unknown-linux-gnu cargo nextest run --workspace --no-fail-fast --tool-config-file pb:/w/lib/nextest.toml --profile pb --test-threads 8 --offline || (cd /repo && RUSTUP_TOOLCHAIN=stable-x86_64-unknown-linux-gnu cargo test --workspace --no-fail-fast --offline)",
            "source_commits": commits,
            "add_only": True,
        },
        "engines": [{"name": "monitor", "path": "/verif/harness", "serves_properties": [c["property_id"] for c in checks],
                     "kind_free_text": "Rust harness that runs the real library/example contracts natively in the Soroban test host under generated workloads with reference-model, invariant, exact-authorization, log and differential monitors; driven by /verif/check (python) over 16 shard processes"}],
        "checks": checks,
        "not_applicable": na,
        "notes": "Verdicts are three-valued: exit 0 held on observed, exit 1 VIOLATION, exit 3 INCONCLUSIVE (build failure, watchdog, coverage floor missed). known_findings.json lists repaired ('fixed') and recorded ('known') genuine defects.",
    }
    json.dump(m, open(os.path.join(ROOT, "MANIFEST.json"), "w"), indent=1)
    print("claimed:", [c["property_id"] for c in checks])
main()
