#!/usr/bin/env python3
"""Regenerates the table of seeded changes in DESIGN.md (between the SEEDED-TABLE markers) from
seeded/*/meta.json and seeded/RESULTS.tsv (written by tools/run_seeded.sh)."""
import glob, json, os, re
res = {}
if os.path.exists('/verif/seeded/RESULTS.tsv'):
    for l in open('/verif/seeded/RESULTS.tsv').read().splitlines()[1:]:
        f = l.split('\t')
        if len(f) >= 6: res[f[0]] = f
rows = ["| seeded change | property | needs, in order to manifest | check on the current tree (quick tier unless noted) | first signature | note |", "|---|---|---|---|---|---|"]
for d in sorted(glob.glob('/verif/seeded/*/')):
    n = os.path.basename(d.rstrip('/'))
    m = json.load(open(d + 'meta.json'))
    r = res.get(n)
    verdict = "not re-run" if not r else ("patch no longer applies" if r[3] == 'NO' else ("VIOLATION (caught)" if r[4] == '1' else "exit %s (MISSED)" % r[4]))
    if r and r[2] == 'thorough':
        verdict += " - thorough tier; the quick tier does not reach it"
    sig = r[5] if r and len(r) > 5 else ""
    note = ""
    ob = m.get("observed", "")
    for mm in re.finditer(r"\(([^()]*)\)", ob):
        if re.search(r"missed|crashed|seen by|before|saw it", mm.group(1)):
            note = mm.group(1)
    rows.append("| `%s` | %s | %s | %s | `%s` | %s |" % (n, m["property"], m["needs_to_manifest"].replace('|', '/'), verdict, sig, note))
t = "\n".join(rows)
p = '/verif/DESIGN.md'; s = open(p).read()
a = s.index("<!-- SEEDED-TABLE-BEGIN -->") + len("<!-- SEEDED-TABLE-BEGIN -->")
b = s.index("<!-- SEEDED-TABLE-END -->")
open(p, 'w').write(s[:a] + "\n" + t + "\n" + s[b:])
print(len(rows) - 2, "rows")
