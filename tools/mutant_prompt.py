#!/usr/bin/env python3
"""Prints the prompt given to an independent sub-agent that seeds a property-breaking change.
Usage: mutant_prompt.py <ID> <worktree> [n]"""
import json, sys
pid, wt = sys.argv[1], sys.argv[2]
n = int(sys.argv[3]) if len(sys.argv) > 3 else 2
p = [json.loads(l) for l in open('/verif/properties.jsonl') if json.loads(l)['id'] == pid][0]
import glob, os
hint = os.environ.get('ROUND_HINT', '')
hint = ('\n' + hint + '\n') if hint else ''
prev = []
for d in sorted(glob.glob('/verif/seeded/%s-*/' % pid)):
    m = json.load(open(d + 'meta.json'))
    first = open(d + 'patch.diff').read().split('\n')
    files = sorted({l[6:] for l in first if l.startswith('+++ b/')})
    prev.append("  - %s (in %s; needs: %s)" % (os.path.basename(d.rstrip('/')).split('-', 2)[2].replace('-', ' '), ', '.join(files), m['needs_to_manifest']))
already = ("\nChanges ALREADY collected for this property by earlier helpers - do not repeat these ideas, and prefer other functions/files:\n" + "\n".join(prev) + "\n") if prev else ""
print(f"""You are helping to evaluate a verification effort for OpenZeppelin/stellar-contracts (a Rust library of Soroban smart contracts). You have your own scratch git worktree of the repository at {wt} (a checkout of its current HEAD). Work ONLY inside {wt}; never touch /repo or /verif, and do not read anything under /verif.

The repository is supposed to satisfy this semantic property:

  Title: {p['title']}
  Statement: {p['statement']}
  Quantified over: {p['quantifier']['text']}
  Code it is anchored in: {', '.join(p['anchors']['files'])}

YOUR TASK: produce {n} DIFFERENT, realistic changes to the library/example source (not to tests) in {wt}, each of which BREAKS this property while the code still compiles and the repository's existing test suite still passes completely. Each change should look like a plausible slip a maintainer could make (an off-by-one at a boundary, a dropped or misplaced check, a wrong operand, a skipped bookkeeping update, an omitted event or hook, two sites that each look fine alone) — and it should need something specific to manifest: a particular multi-step sequence of operations, an unusual input or boundary value, a particular ordering, a rarely taken branch. Do NOT produce changes that ordinary use would expose at once (e.g. making every transfer fail) and do not make the {n} changes variants of the same idea or touch the same few lines.
{already}{hint}

Environment facts (the sandbox is offline):
- Always `export RUSTUP_TOOLCHAIN=stable-x86_64-unknown-linux-gnu CARGO_NET_OFFLINE=true` and pass `--offline` to cargo (the repo's rust-toolchain.toml otherwise makes rustup try to download things).
- Use a target dir inside your worktree (the default {wt}/target). The full suite: `cd {wt} && cargo test --workspace --no-fail-fast --offline 2>&1 | tail -50` (first build takes a few minutes). All 1131 tests must still pass with your change applied (you may run package-level tests while iterating, e.g. `cargo test -p stellar-tokens --offline`, but confirm with the whole workspace at the end for each change).
- Example contracts live under examples/, library crates under packages/.

For each change i (1..{n}) deliver, under {wt}/_out/m<i>/ :
  - patch.diff : `git diff` of ONLY the source change (apply cleanly with `git apply` on a clean checkout of HEAD; do not include the demonstration test in it),
  - demo.rs (or demo.diff): a demonstration — a new Rust test (placed e.g. as an extra test file/module in the relevant package's tests, delivered as a separate diff or a file plus a one-line instruction where to put it) that FAILS with the change applied and PASSES on the unchanged code; say exactly how to run it,
  - notes.md : what the change is, why it breaks the property, what specific condition is needed for it to manifest, the exact commands you ran and their results (suite passes with change: yes/no and counts; demo fails with change / passes without).
After finishing each change, revert the worktree source to HEAD (`git checkout -- . ` but keep _out/) before starting the next one, so the patches are independent.

Finish by replying with a short summary: for each change, one paragraph (files touched, idea, trigger condition) and confirmation of the three facts (compiles, full suite green with the change, demo red with / green without). If you could not make a change satisfy all three, say so plainly rather than delivering it.""")
