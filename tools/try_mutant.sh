#!/bin/bash
# try_mutant.sh <ID> <patch.diff (absolute path)> [tier] [lines]: apply a seeded change, run the check,
# undo it. By default the change is applied to /repo itself (git -C /repo apply; checkout afterwards).
# With MUT_REPO=<scratch worktree of /repo> it is applied there and the check runs with
# VERIF_REPO=$MUT_REPO, leaving /repo untouched (used while a long run is reading /repo).
set -u
ID=$1; PATCH=$2; TIER=${3:-quick}
R=${MUT_REPO:-/repo}
cd $R || exit 9
if ! git diff --quiet; then echo "$R has uncommitted changes; refusing"; exit 9; fi
git apply "$PATCH" 2>/dev/null || patch -p1 -F3 -s < "$PATCH" || { echo "patch does not apply"; git checkout -- .; exit 9; }
cd /verif && VERIF_REPO=$R ./check "$ID" --tier "$TIER" > /tmp/try_$ID.log 2>&1; RC=$?
git -C $R checkout -- . 
git -C $R clean -fdq -- packages examples 2>/dev/null
git -C /verif checkout -- evidence 2>/dev/null  # evidence of a run against a seeded change is not kept
echo "exit=$RC"; grep -E "^VIOLATION|signature|INCONCLUSIVE|HELD" /tmp/try_$ID.log | cut -c1-300 | head -${4:-12}
