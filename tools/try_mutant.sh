#!/bin/bash
# try_mutant.sh <ID> <patch.diff> [tier]: apply a seeded change to /repo, run the check, undo it.
set -u
ID=$1; PATCH=$2; TIER=${3:-quick}
cd /repo || exit 9
if ! git diff --quiet; then echo "/repo has uncommitted changes; refusing"; exit 9; fi
git apply "$PATCH" || { echo "patch does not apply"; exit 9; }
cd /verif && ./check "$ID" --tier "$TIER" > /tmp/try_$ID.log 2>&1; RC=$?
git -C /repo checkout -- . 
git -C /verif checkout -- evidence 2>/dev/null  # evidence of a run against a seeded change is not kept
git -C /repo clean -fdq -- packages examples 2>/dev/null
echo "exit=$RC"; grep -E "^VIOLATION|signature|INCONCLUSIVE|HELD" /tmp/try_$ID.log | cut -c1-300 | head -${4:-12}
