#!/bin/bash
# all_checks.sh <tier> <seed> : run every check once, print one line per property
TIER=${1:-quick}; SEED=${2:-1}
cd "$(dirname "$0")/.."
for i in $(seq -w 1 20); do
  p=C$i
  s=$(date +%s)
  VERIF_SEED=$SEED ./check $p --tier $TIER > /tmp/all_${TIER}_${SEED}_$p.log 2>&1; rc=$?
  echo "$p tier=$TIER seed=$SEED exit=$rc $(( $(date +%s) - s ))s $(grep -c '^VIOLATION' /tmp/all_${TIER}_${SEED}_$p.log) violations $(grep -m1 INCONCLUSIVE /tmp/all_${TIER}_${SEED}_$p.log | cut -c1-150)"
done
