#!/bin/bash
# all_checks.sh <tier> <seed> [first] [last] : run every check (or C<first>..C<last>) once, print one line per property
TIER=${1:-quick}; SEED=${2:-1}; FIRST=${3:-1}; LAST=${4:-20}
cd "$(dirname "$0")/.."
for i in $(seq -f "%02g" $FIRST $LAST); do
  p=C$i
  s=$(date +%s)
  VERIF_SEED=$SEED ./check $p --tier $TIER > /tmp/all_${TIER}_${SEED}_$p.log 2>&1; rc=$?
  echo "$p tier=$TIER seed=$SEED exit=$rc $(( $(date +%s) - s ))s $(grep -c '^VIOLATION' /tmp/all_${TIER}_${SEED}_$p.log) violations $(grep -m1 INCONCLUSIVE /tmp/all_${TIER}_${SEED}_$p.log | cut -c1-150)"
done
