#!/bin/bash
# run_seeded.sh [tier] [name-filter]: apply every kept seeded change to /repo (or to the scratch
# worktree named by MUT_REPO, which must be at /repo's HEAD) in turn, run the quick
# (or given) check of its property, undo it, and write seeded/RESULTS.tsv.
# PART=k/n (with MUT_REPO): take every n-th change starting at the k-th and write seeded/RESULTS.part-k.tsv,
# so that n streams on n scratch worktrees can share the work; `tools/run_seeded.sh merge` joins the parts.
if [ "${1:-}" = merge ]; then
  OUT=/verif/seeded/RESULTS.tsv
  printf "seeded change\tproperty\ttier\tapplies\tcheck exit\tfirst signature\n" > $OUT
  cat /verif/seeded/RESULTS.part-*.tsv | sort >> $OUT; rm -f /verif/seeded/RESULTS.part-*.tsv
  git -C /verif checkout -- evidence 2>/dev/null
  awk -F'\t' 'NR>1{c[$5]++} END{for(k in c) print "exit " k ": " c[k]}' $OUT; exit 0
fi
TIER=${1:-quick}; FILTER=${2:-}
R=${MUT_REPO:-/repo}; [ -n "${MUT_REPO:-}" ] && export VERIF_REPO=$MUT_REPO
cd $R || exit 9
if ! git diff --quiet; then echo "$R has uncommitted changes; refusing"; exit 9; fi
OUT=/verif/seeded/RESULTS.tsv
PK=0; PN=1
if [ -n "${PART:-}" ]; then PK=${PART%/*}; PN=${PART#*/}; OUT=/verif/seeded/RESULTS.part-$PK.tsv; : > $OUT; FILTER=${FILTER:-.}; fi
IDX=0
[ -z "$FILTER" ] && printf "seeded change\tproperty\ttier\tapplies\tcheck exit\tfirst signature\n" > $OUT
for d in /verif/seeded/*/; do
  n=$(basename $d); [ -n "$FILTER" ] && [ "$FILTER" != . ] && [[ "$n" != *$FILTER* ]] && continue
  IDX=$((IDX+1)); [ $(( IDX % PN )) -ne $PK ] && continue
  # SKIP_FILE: results already at hand (lines of an earlier run, copied through unchanged)
  if [ -n "${SKIP_FILE:-}" ] && grep -q "^$n	" "$SKIP_FILE"; then grep "^$n	" "$SKIP_FILE" | head -1 >> $OUT; continue; fi
  p=$(jq -r .property $d/meta.json)
  # a change that only the thorough tier can reach says so in its meta.json ("tier": "thorough")
  t=$(jq -r '.tier // empty' $d/meta.json); [ -z "$t" ] && t=$TIER
  if ! git -C $R apply --check $d/patch.diff 2>/dev/null; then
     if ! (cd $R && patch -p1 --dry-run -F3 -s < $d/patch.diff >/dev/null 2>&1); then printf "%s\t%s\t%s\tNO\t-\t-\n" $n $p $TIER >> $OUT; continue; fi
     (cd $R && patch -p1 -F3 -s < $d/patch.diff)
  else
     git -C $R apply $d/patch.diff
  fi
  # SCREEN=<shard list>: look with a few of the sixteen shards first; only a change that they do not catch
  # costs a full run (a screening run that finds nothing proves nothing and is not reported)
  rc=0
  if [ -n "${SCREEN:-}" ] && [ "$t" = quick ]; then (cd /verif && VERIF_ONLY_SHARDS=$SCREEN ./check $p --tier $t > /tmp/seeded_$n.log 2>&1); rc=$?; fi
  if [ $rc -ne 1 ]; then (cd /verif && ./check $p --tier $t > /tmp/seeded_$n.log 2>&1); rc=$?; fi
  git -C $R checkout -- . ; git -C $R clean -fdq -- packages examples; find $R -name "*.orig" -newer $d/meta.json -delete 2>/dev/null
  sig=$(grep -m1 "signature" /tmp/seeded_$n.log | sed 's/^ *signature //' | cut -d: -f1)
  printf "%s\t%s\t%s\tyes\t%s\t%s\n" $n $p $t $rc "$sig" >> $OUT
done
# evidence written while a seeded change was applied is not evidence about the tree
[ -z "${PART:-}" ] && git -C /verif checkout -- evidence 2>/dev/null
[ -z "${PART:-}" ] && cat $OUT
