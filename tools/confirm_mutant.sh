#!/bin/bash
# confirm_mutant.sh <worktree> <mutant dir> <demo dest (relative)> <package> <test name>
# Confirms in the scratch worktree: (1) full suite green with the change, (2) demo red with it,
# (3) demo green without it. Writes <mutant dir>/confirm.txt.
set -u
WT=$1; M=$2; DEST=$3; PKG=$4; T=$5
export RUSTUP_TOOLCHAIN=stable-x86_64-unknown-linux-gnu CARGO_NET_OFFLINE=true
# CONFIRM_TARGET=<dir>: one build directory shared by successive worktrees (saves disk); each worktree
# must then be confirmed in one contiguous block and never revisited (artifacts of lib+cdylib crates
# carry no hash in their file name)
[ -n "${CONFIRM_TARGET:-}" ] && export CARGO_TARGET_DIR=$CONFIRM_TARGET
cd "$WT" || exit 9
git checkout -q -- . ; git clean -fdq -- examples packages; rm -f "$DEST"
git apply "$M/patch.diff" || { echo "patch does not apply" > "$M/confirm.txt"; exit 1; }
SUITE=$(cargo test --workspace --no-fail-fast --offline 2>&1 | grep -E "^test result" | awk '{p+=$4; f+=$6} END {print p" passed "f" failed"}')
if [ -f "$M/demo.diff" ]; then
  # demonstration delivered as a diff that appends tests to an in-crate test module; $T is the test filter
  git apply "$M/demo.diff" || { echo "demo.diff does not apply" > "$M/confirm.txt"; exit 1; }
  cargo test -p "$PKG" "$T" --offline > "$M/demo_with.log" 2>&1; RC_WITH=$?
  git checkout -q -- . ; git clean -fdq -- examples packages; git apply "$M/demo.diff"
  cargo test -p "$PKG" "$T" --offline > "$M/demo_without.log" 2>&1; RC_WITHOUT=$?
  grep -q "running [1-9]" "$M/demo_without.log" || RC_WITHOUT=77
  git checkout -q -- . ; git clean -fdq -- examples packages
else
mkdir -p "$(dirname "$DEST")"; cp "$M/demo.rs" "$DEST"
cargo test -p "$PKG" --test "$T" --offline > "$M/demo_with.log" 2>&1; RC_WITH=$?
git checkout -q -- .
cargo test -p "$PKG" --test "$T" --offline > "$M/demo_without.log" 2>&1; RC_WITHOUT=$?
rm -f "$DEST"
fi
echo "suite_with_change: $SUITE; demo_with_change_exit: $RC_WITH; demo_without_change_exit: $RC_WITHOUT" | tee "$M/confirm.txt"
