//! What a shard observed: counters, distinct abstract cases, samples, violations, floors.
use serde_json::{json, Value};
use std::collections::{BTreeMap, BTreeSet};

#[derive(Clone, Debug)]
pub struct Violation {
    pub signature: String,
    pub detail: String,
    pub hist: u64,
    pub step: usize,
    pub trace: Vec<String>,
}

pub struct Report {
    pub prop: String,
    pub tier: String,
    pub seed: u64,
    pub shard: u32,
    pub nshards: u32,
    /// contract invocations / oracle evaluations made
    pub evaluations: u64,
    /// distinct abstract non-trivial cases (Appendix B of DESIGN.md)
    pub distinct: BTreeSet<String>,
    pub counters: BTreeMap<String, u64>,
    pub samples: Vec<Value>,
    pub violations: Vec<Violation>,
    /// floors: name -> (required, observed); below => inconclusive
    pub floors: BTreeMap<String, (u64, u64)>,
    pub notes: Vec<String>,
    /// current history trace (human readable operations), reset per history
    pub trace: Vec<String>,
    pub cur_hist: u64,
    pub max_violations: usize,
    pub histories: u64,
    /// how cases are generated and what makes one distinct / non-trivial
    pub rule: String,
    /// violations are flushed here as soon as they are recorded, so that a shard that is killed
    /// (OOM, watchdog) does not take its witnesses with it
    pub partial_path: Option<String>,
    /// signatures starting with this prefix are counted, not reported (borrowed engines)
    pub mute_prefix: Option<String>,
    /// signatures starting with .0 are reported with that prefix replaced by .1 (an engine borrowed for
    /// another property's clause)
    pub rename_prefix: Option<(String, String)>,
}

impl Report {
    pub fn new(prop: &str, tier: &str, seed: u64, shard: u32, nshards: u32) -> Self {
        Report {
            prop: prop.into(),
            tier: tier.into(),
            seed,
            shard,
            nshards,
            evaluations: 0,
            distinct: BTreeSet::new(),
            counters: BTreeMap::new(),
            samples: vec![],
            violations: vec![],
            floors: BTreeMap::new(),
            notes: vec![],
            trace: vec![],
            cur_hist: 0,
            max_violations: 40,
            histories: 0,
            rule: String::new(),
            partial_path: None,
            mute_prefix: None,
            rename_prefix: None,
        }
    }
    pub fn begin_history(&mut self, hist: u64) {
        self.cur_hist = hist;
        self.trace.clear();
        self.histories += 1;
    }
    /// Keep the trace of the current history as a sample (bounded).
    pub fn end_history(&mut self) {
        if self.samples.len() < 2 && !self.trace.is_empty() {
            let t: Vec<&String> = self.trace.iter().take(60).collect();
            self.samples.push(json!({"history": self.cur_hist, "shard": self.shard, "ops": t, "ops_total": self.trace.len()}));
        }
    }
    pub fn op(&mut self, s: String) {
        self.trace.push(s);
    }
    pub fn sample(&mut self, v: Value) {
        if self.samples.len() < 6 {
            self.samples.push(v);
        }
    }
    pub fn count(&mut self, k: &str) {
        *self.counters.entry(k.to_string()).or_insert(0) += 1;
    }
    pub fn count_n(&mut self, k: &str, n: u64) {
        *self.counters.entry(k.to_string()).or_insert(0) += n;
    }
    pub fn get(&self, k: &str) -> u64 {
        *self.counters.get(k).unwrap_or(&0)
    }
    /// floor on the sum of some counters
    pub fn floor_on(&mut self, name: &str, required: u64, keys: &[&str]) {
        let v: u64 = keys.iter().map(|k| self.get(k)).sum();
        self.floor(name, required, v);
    }
    pub fn case(&mut self, k: String) {
        self.distinct.insert(k);
    }
    pub fn floor(&mut self, name: &str, required: u64, observed: u64) {
        let e = self.floors.entry(name.to_string()).or_insert((required, 0));
        e.0 = required;
        e.1 += observed;
    }
    /// Record a violation (deduplicated by signature per shard: first witness kept, count kept).
    pub fn violation(&mut self, signature: &str, detail: String) {
        let renamed: String;
        let signature: &str = match &self.rename_prefix {
            Some((from, to)) if signature.starts_with(from.as_str()) => {
                renamed = format!("{to}{}", &signature[from.len()..]);
                &renamed
            }
            _ => signature,
        };
        // a borrowed engine's own monitors are not this property's business
        if let Some(p) = &self.mute_prefix {
            if signature.starts_with(p.as_str()) {
                self.count(&format!("muted:{signature}"));
                return;
            }
        }
        self.count(&format!("violation:{signature}"));
        if self.violations.iter().any(|v| v.signature == signature) {
            return;
        }
        if self.violations.len() >= self.max_violations {
            return;
        }
        let start = self.trace.len().saturating_sub(400);
        self.violations.push(Violation {
            signature: signature.to_string(),
            detail,
            hist: self.cur_hist,
            step: self.trace.len(),
            trace: self.trace[start..].to_vec(),
        });
        if let Some(p) = &self.partial_path {
            let _ = std::fs::write(p, serde_json::to_string(&self.to_json(0.0)).unwrap_or_default());
        }
    }
    /// Monitor assertion: counts the assertion, records a violation when false.
    pub fn check(&mut self, monitor: &str, ok: bool, signature: &str, detail: impl FnOnce() -> String) -> bool {
        *self.counters.entry(format!("assert:{monitor}")).or_insert(0) += 1;
        if !ok {
            self.violation(signature, detail());
        }
        ok
    }
    pub fn to_json(&self, wall_s: f64) -> Value {
        json!({
            "property": self.prop, "tier": self.tier, "seed": self.seed,
            "shard": self.shard, "nshards": self.nshards,
            "evaluations": self.evaluations,
            "histories": self.histories,
            "distinct": self.distinct.iter().collect::<Vec<_>>(),
            "counters": self.counters,
            "samples": self.samples,
            "floors": self.floors.iter().map(|(k,(r,o))| (k.clone(), json!({"required": r, "observed": o}))).collect::<BTreeMap<_,_>>(),
            "notes": self.notes,
            "rule": self.rule,
            "violations": self.violations.iter().map(|v| json!({
                "signature": v.signature, "detail": v.detail, "history": v.hist, "step": v.step, "trace": v.trace,
            })).collect::<Vec<_>>(),
            "wall_s": wall_s,
        })
    }
}
