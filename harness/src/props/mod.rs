use crate::report::Report;
use crate::Cfg;

pub mod c01;
pub mod c02;
pub mod c03;
pub mod c04;
pub mod c05;
pub mod c06;
pub mod c07;
pub mod c08;
pub mod c09;
pub mod c10;
pub mod c11;
pub mod c12;
pub mod c13;
pub mod c14;
pub mod c15;
pub mod c16;
pub mod c17;
pub mod c18;
pub mod c19;
pub mod c20;

pub fn run(prop: &str, cfg: &Cfg, rep: &mut Report) -> bool {
    match prop {
        "C01" => c01::run(cfg, rep),
        "C02" => c02::run(cfg, rep),
        "C03" => c03::run(cfg, rep),
        "C04" => c04::run(cfg, rep),
        "C05" => c05::run(cfg, rep),
        "C06" => c06::run(cfg, rep),
        "C07" => c07::run(cfg, rep),
        "C08" => c08::run(cfg, rep),
        "C09" => c09::run(cfg, rep),
        "C10" => c10::run(cfg, rep),
        "C11" => c11::run(cfg, rep),
        "C12" => c12::run(cfg, rep),
        "C13" => c13::run(cfg, rep),
        "C14" => c14::run(cfg, rep),
        "C15" => c15::run(cfg, rep),
        "C16" => c16::run(cfg, rep),
        "C17" => c17::run(cfg, rep),
        "C18" => c18::run(cfg, rep),
        "C19" => c19::run(cfg, rep),
        "C20" => c20::run(cfg, rep),
        _ => return false,
    }
    true
}
