//! C06 — privileged functions obey the role / admin / owner hierarchy.
//! AUTH (exact authorization sets), REF (membership model), INV (gap-free bijective enumeration).
use crate::args;
use crate::contracts::access::AcWrap;
use crate::examples;
use crate::report::Report;
use crate::rng::Rng;
use crate::world::{Must, invoke, tag, Fail, Inv, World};
use crate::Cfg;
use soroban_sdk::{Address, Env, String as SString, Symbol, Val, Vec as SVec};
use std::collections::{BTreeMap, BTreeSet};

// (the last role has the empty name: a legal symbol, and the value some code treats as "no role")
const ROLES: [&str; 5] = ["r0", "r1", "r2", "r3", ""];

#[derive(Clone, Debug)]
enum Op {
    Grant { acct: usize, role: usize, caller: usize },
    Revoke { acct: usize, role: usize, caller: usize },
    RenounceRole { role: usize, caller: usize },
    SetRoleAdmin { role: usize, admin_role: usize },
    TransferAdmin { new: usize, l: u32 },
    AcceptAdmin,
    RenounceAdmin,
    GAdmin,
    GOnlyRole { caller: usize },
    GHasRole { caller: usize },
    GOnlyAny { caller: usize },
    /// two guards stacked on one entry point: role r0 AND (r1 or r2), the caller's authorization
    GStackedA { caller: usize },
    GStackedB { caller: usize },
    GHasAny { caller: usize },
}

impl Op {
    fn name(&self) -> &'static str {
        match self {
            Op::Grant { .. } => "grant_role",
            Op::Revoke { .. } => "revoke_role",
            Op::RenounceRole { .. } => "renounce_role",
            Op::SetRoleAdmin { .. } => "set_role_admin",
            Op::TransferAdmin { .. } => "transfer_admin_role",
            Op::AcceptAdmin => "accept_admin_transfer",
            Op::RenounceAdmin => "renounce_admin",
            Op::GAdmin => "g_admin",
            Op::GOnlyRole { .. } => "g_only_role",
            Op::GHasRole { .. } => "g_has_role",
            Op::GOnlyAny { .. } => "g_only_any",
            Op::GStackedA { .. } => "g_stacked_a",
            Op::GStackedB { .. } => "g_stacked_b",
            Op::GHasAny { .. } => "g_has_any",
        }
    }
}

#[derive(Clone, Debug, Default)]
struct Model {
    admin: Option<usize>,
    pending: Option<(usize, u32)>,
    members: BTreeMap<usize, BTreeSet<usize>>, // role -> accounts
    role_admin: BTreeMap<usize, usize>,
}

impl Model {
    fn has(&self, a: usize, r: usize) -> bool {
        self.members.get(&r).map_or(false, |s| s.contains(&a))
    }
    fn may_manage(&self, caller: usize, role: usize) -> bool {
        self.admin == Some(caller) || self.role_admin.get(&role).map_or(false, |ar| self.has(caller, *ar))
    }
    fn caller_kind(&self, caller: usize, role: usize) -> &'static str {
        if self.admin == Some(caller) {
            return "admin";
        }
        if self.role_admin.get(&role).map_or(false, |ar| self.has(caller, *ar)) {
            // depth of the admin chain above `role`
            let mut d = 0;
            let mut r = role;
            let mut seen = BTreeSet::new();
            while let Some(ar) = self.role_admin.get(&r) {
                if !seen.insert(*ar) {
                    return "role-admin(cycle)";
                }
                d += 1;
                r = *ar;
            }
            return match d {
                1 => "role-admin(depth1)",
                2 => "role-admin(depth2)",
                _ => "role-admin(depth3+)",
            };
        }
        if self.has(caller, role) {
            return "member-of-role";
        }
        if (0..ROLES.len()).any(|r| self.has(caller, r)) {
            return "member-of-other";
        }
        "stranger"
    }
}

fn sym(e: &Env, r: usize) -> Symbol {
    Symbol::new(e, ROLES[r])
}

/// Compare every getter with the model; enumeration must be a gap-free bijection.
fn observe_all(rep: &mut Report, w: &World, c: &Address, u: &[Address], m: &Model, site: &str) {
    let e = &w.env;
    let n = u.len();
    let admin: Option<Address> = invoke(e, c, "get_admin", args!(e)).must("get_admin");
    let admin_i = admin.map(|a| u.iter().position(|x| *x == a).unwrap_or(usize::MAX));
    rep.check("ref", admin_i == m.admin, &format!("C06/ref/{site}/get_admin"), || format!("get_admin={admin_i:?} model={:?}", m.admin));
    let existing: SVec<Symbol> = invoke(e, c, "get_existing_roles", args!(e)).must("get_existing_roles");
    let mut ex: Vec<usize> = vec![];
    for s in existing.iter() {
        ex.push((0..ROLES.len()).find(|r| sym(e, *r) == s).unwrap_or(usize::MAX));
    }
    let mut exs = ex.clone();
    exs.sort();
    let want: Vec<usize> = (0..ROLES.len()).filter(|r| m.members.get(r).map_or(false, |s| !s.is_empty())).collect();
    rep.check("inv", exs == want && ex.len() == want.len(), &format!("C06/inv/{site}/existing_roles"), || {
        format!("get_existing_roles={ex:?}, roles with members in the model={want:?}")
    });
    for r in 0..ROLES.len() {
        let set = m.members.get(&r).cloned().unwrap_or_default();
        let count: u32 = invoke(e, c, "get_role_member_count", args!(e, sym(e, r))).must("get_role_member_count");
        rep.check("ref", count as usize == set.len(), &format!("C06/ref/{site}/member_count"), || {
            format!("role {} count={count} model set={set:?}", ROLES[r])
        });
        let mut listed = vec![];
        for i in 0..count {
            match invoke::<Address>(e, c, "get_role_member", args!(e, sym(e, r), i)) {
                Ok(a) => listed.push(u.iter().position(|x| *x == a).unwrap_or(usize::MAX)),
                Err(f) => {
                    rep.violation(&format!("C06/inv/{site}/enumeration-gap"), format!("role {} index {i} < count {count} refused with {f:?}", ROLES[r]));
                }
            }
        }
        let mut sorted = listed.clone();
        sorted.sort();
        let wantv: Vec<usize> = set.iter().cloned().collect();
        rep.check("inv", sorted == wantv, &format!("C06/inv/{site}/enumeration-not-a-permutation"), || {
            format!("role {} members by index {listed:?}, model set {wantv:?}", ROLES[r])
        });
        let beyond = invoke::<Address>(e, c, "get_role_member", args!(e, sym(e, r), count));
        rep.check("inv", beyond.is_err(), &format!("C06/inv/{site}/index-count-answered"), || {
            format!("role {} get_role_member(count={count}) answered {beyond:?}", ROLES[r])
        });
        for a in 0..n {
            let hr: Option<u32> = invoke(e, c, "has_role", args!(e, u[a], sym(e, r))).must("has_role");
            rep.check("ref", hr.is_some() == set.contains(&a), &format!("C06/ref/{site}/has_role"), || {
                format!("has_role({a},{})={hr:?} model set={set:?}", ROLES[r])
            });
            if let Some(i) = hr {
                let ok = listed.get(i as usize) == Some(&a);
                rep.check("inv", ok, &format!("C06/inv/{site}/index-not-bijective"), || {
                    format!("has_role({a},{}) = {i} but members by index = {listed:?}", ROLES[r])
                });
            }
        }
        let ra: Option<Symbol> = invoke(e, c, "get_role_admin", args!(e, sym(e, r))).must("get_role_admin");
        let ra_i = ra.map(|s| (0..ROLES.len()).find(|x| sym(e, *x) == s).unwrap_or(usize::MAX));
        rep.check("ref", ra_i == m.role_admin.get(&r).cloned(), &format!("C06/ref/{site}/get_role_admin"), || {
            format!("get_role_admin({})={ra_i:?} model={:?}", ROLES[r], m.role_admin.get(&r))
        });
    }
    rep.evaluations += (2 + ROLES.len() * (3 + n)) as u64;
}

fn history_ac(cfg: &Cfg, rep: &mut Report, h: u64, steps: usize) {
    let mut rng = Rng::for_history(cfg.seed, "C06", cfg.shard, h);
    rep.begin_history(h);
    let w = World::new(100, 1);
    let e = &w.env;
    let n = 5;
    let u = w.accounts(n);
    let c = e.register(AcWrap, (u[0].clone(),));
    let mut m = Model { admin: Some(0), ..Default::default() };
    rep.op("deploy AcWrap admin=0".into());
    for step in 0..steps {
        if rng.chance(1, 12) {
            let t = w.ledger() + if rng.chance(1, 8) { 1_700_000 } else { 1 + rng.below(30) as u32 };
            w.set_ledger(t);
            rep.op(format!("ledger -> {t}"));
        }
        let cur = w.ledger();
        let live = m.pending.map_or(false, |(_, l)| cur <= l);
        let a = rng.idx(n);
        let r = rng.idx(ROLES.len());
        let caller = if rng.chance(1, 3) { m.admin.unwrap_or(0) } else { rng.idx(n) };
        let op = match rng.below(100) {
            0..=27 => Op::Grant { acct: a, role: r, caller },
            28..=45 => {
                // bias towards existing members
                let acct = m.members.get(&r).and_then(|s| s.iter().nth(rng.idx(s.len().max(1))).cloned()).filter(|_| rng.chance(3, 4)).unwrap_or(a);
                Op::Revoke { acct, role: r, caller }
            }
            46..=53 => Op::RenounceRole { role: r, caller },
            54..=63 => Op::SetRoleAdmin { role: r, admin_role: rng.idx(ROLES.len()) },
            64..=67 => Op::TransferAdmin { new: a, l: if rng.chance(1, 5) { 0 } else { cur + rng.below(40) as u32 } },
            68..=71 => Op::AcceptAdmin,
            72 if step * 3 > steps * 2 => Op::RenounceAdmin,
            72 => Op::GAdmin,
            73..=77 => Op::GAdmin,
            78..=83 => Op::GOnlyRole { caller },
            84..=88 => Op::GHasRole { caller },
            89..=92 => Op::GOnlyAny { caller },
            93 | 94 => Op::GStackedA { caller },
            95 | 96 => Op::GStackedB { caller },
            _ => Op::GHasAny { caller },
        };
        // necessary principal (Appendix A)
        let principal: Option<usize> = match &op {
            Op::Grant { caller, .. } | Op::Revoke { caller, .. } | Op::RenounceRole { caller, .. } => Some(*caller),
            Op::SetRoleAdmin { .. } | Op::TransferAdmin { .. } | Op::RenounceAdmin | Op::GAdmin => m.admin.or(Some(usize::MAX)),
            Op::AcceptAdmin => m.pending.map(|p| p.0).or(Some(usize::MAX)),
            Op::GOnlyRole { caller } | Op::GOnlyAny { caller } | Op::GStackedA { caller } | Op::GStackedB { caller } => Some(*caller),
            Op::GHasRole { .. } | Op::GHasAny { .. } => None, // documented: no authorization by the macro
        };
        let signers: Vec<usize> = if rng.chance(1, 2) {
            principal.into_iter().filter(|p| *p < n).collect()
        } else {
            let mask = rng.below(1 << n);
            (0..n).filter(|i| mask >> i & 1 == 1).collect()
        };
        let authorized = principal.map_or(true, |p| signers.contains(&p));
        let max_live = e.ledger().max_live_until_ledger();
        let pre_ok = match &op {
            Op::Grant { role, caller, .. } => m.may_manage(*caller, *role),
            Op::Revoke { acct, role, caller } => m.may_manage(*caller, *role) && m.has(*acct, *role),
            Op::RenounceRole { role, caller } => m.has(*caller, *role),
            Op::SetRoleAdmin { .. } | Op::GAdmin => m.admin.is_some(),
            Op::TransferAdmin { new, l } => m.admin.is_some() && if *l == 0 { live && m.pending.unwrap().0 == *new } else { *l >= cur && *l <= max_live },
            Op::AcceptAdmin => live && m.admin.is_some(),
            Op::RenounceAdmin => m.admin.is_some() && !live,
            Op::GOnlyRole { caller } | Op::GHasRole { caller } => m.has(*caller, 0),
            Op::GOnlyAny { caller } | Op::GHasAny { caller } => m.has(*caller, 1) || m.has(*caller, 2),
            Op::GStackedA { caller } | Op::GStackedB { caller } => m.has(*caller, 0) && (m.has(*caller, 1) || m.has(*caller, 2)),
        };
        let want_ok = pre_ok && authorized;
        let (f, av): (&str, SVec<Val>) = match &op {
            Op::Grant { acct, role, caller } => ("grant_role", args!(e, u[*acct], sym(e, *role), u[*caller])),
            Op::Revoke { acct, role, caller } => ("revoke_role", args!(e, u[*acct], sym(e, *role), u[*caller])),
            Op::RenounceRole { role, caller } => ("renounce_role", args!(e, sym(e, *role), u[*caller])),
            Op::SetRoleAdmin { role, admin_role } => ("set_role_admin", args!(e, sym(e, *role), sym(e, *admin_role))),
            Op::TransferAdmin { new, l } => ("transfer_admin_role", args!(e, u[*new], *l)),
            Op::AcceptAdmin => ("accept_admin_transfer", args!(e)),
            Op::RenounceAdmin => ("renounce_admin", args!(e)),
            Op::GAdmin => ("g_admin", args!(e)),
            Op::GOnlyRole { caller } => ("g_only_role", args!(e, u[*caller])),
            Op::GHasRole { caller } => ("g_has_role", args!(e, u[*caller])),
            Op::GOnlyAny { caller } => ("g_only_any", args!(e, u[*caller])),
            Op::GStackedA { caller } => ("g_stacked_a", args!(e, u[*caller])),
            Op::GStackedB { caller } => ("g_stacked_b", args!(e, u[*caller])),
            Op::GHasAny { caller } => ("g_has_any", args!(e, u[*caller])),
        };
        let inv = Inv::new(&c, f, av.clone());
        let entries: Vec<(Address, Inv)> = signers.iter().map(|i| (u[*i].clone(), inv.clone())).collect();
        w.auth(&entries);
        w.reset_budget();
        let ctr0: u32 = invoke(e, &c, "counter", args!(e)).unwrap();
        w.auth(&entries);
        let got: Result<Val, Fail> = invoke(e, &c, f, av);
        rep.evaluations += 1;
        rep.op(format!("#{step} @{cur} {op:?} signed by {signers:?} -> {}", tag(&got)));
        if let Err(Fail::Budget) = got {
            rep.count("budget_errors");
        }
        let kind = match &op {
            Op::Grant { role, caller, .. } | Op::Revoke { role, caller, .. } | Op::RenounceRole { role, caller } => m.caller_kind(*caller, *role),
            Op::GOnlyRole { caller } | Op::GHasRole { caller } => m.caller_kind(*caller, 0),
            Op::GStackedA { caller } | Op::GStackedB { caller } => if m.has(*caller, 0) { if m.has(*caller, 1) || m.has(*caller, 2) { "both-guards-met" } else { "first-guard-only" } } else if m.has(*caller, 1) || m.has(*caller, 2) { "second-guard-only" } else { "none" },
            Op::GOnlyAny { caller } | Op::GHasAny { caller } => {
                if m.has(*caller, 1) && m.has(*caller, 2) {
                    "both"
                } else if m.has(*caller, 1) {
                    "first"
                } else if m.has(*caller, 2) {
                    "second"
                } else {
                    "none"
                }
            }
            _ => {
                if m.admin.is_some() {
                    "admin-set"
                } else {
                    "admin-renounced"
                }
            }
        };
        rep.case(format!("ac/{}/{kind}/auth={authorized}/{}", op.name(), tag(&got)));
        rep.count(&format!("{}:{}", op.name(), tag(&got)));
        let site = format!("ac/{}", op.name());
        if got.is_ok() {
            rep.check("auth", authorized, &format!("C06/auth/{site}/succeeded-without-principal"), || {
                format!("{op:?} succeeded; necessary principal {principal:?}, signers {signers:?}; model {m:?}")
            });
            rep.check("auth", pre_ok, &format!("C06/auth/{site}/succeeded-without-privilege"), || {
                format!("{op:?} succeeded although the caller lacks the privilege; signers {signers:?}; model {m:?}")
            });
        }
        rep.check("ref", got.is_ok() == want_ok, &format!("C06/ref/{site}/outcome"), || {
            format!("{op:?} signed by {signers:?}: model expects ok={want_ok} (privilege {pre_ok}, authorized {authorized}), contract answered {got:?}; model {m:?}")
        });
        // guarded entry points: executed exactly when they returned ok
        let ctr1: u32 = invoke(e, &c, "counter", args!(e)).unwrap();
        let is_g = matches!(op, Op::GAdmin | Op::GOnlyRole { .. } | Op::GHasRole { .. } | Op::GOnlyAny { .. } | Op::GHasAny { .. } | Op::GStackedA { .. } | Op::GStackedB { .. });
        let want_ctr = ctr0 + if is_g && got.is_ok() { 1 } else { 0 };
        rep.check("res", ctr1 == want_ctr, &format!("C06/res/{site}/guarded-body-ran"), || format!("{op:?} -> {got:?}: counter {ctr0} -> {ctr1}"));
        if got.is_ok() {
            match &op {
                Op::Grant { acct, role, .. } => {
                    m.members.entry(*role).or_default().insert(*acct);
                }
                Op::Revoke { acct, role, .. } => {
                    m.members.entry(*role).or_default().remove(acct);
                }
                Op::RenounceRole { role, caller } => {
                    m.members.entry(*role).or_default().remove(caller);
                }
                Op::SetRoleAdmin { role, admin_role } => {
                    m.role_admin.insert(*role, *admin_role);
                }
                Op::TransferAdmin { new, l } => m.pending = if *l == 0 { None } else { Some((*new, *l)) },
                Op::AcceptAdmin => {
                    m.admin = m.pending.map(|p| p.0);
                    m.pending = None;
                }
                Op::RenounceAdmin => m.admin = None,
                _ => {}
            }
        }
        observe_all(rep, &w, &c, &u, &m, &site);
    }
    rep.end_history();
}

/// nft-access-control example: all five macro forms on real entry points.
fn history_nft(cfg: &Cfg, rep: &mut Report, h: u64, steps: usize) {
    let mut rng = Rng::for_history(cfg.seed, "C06", cfg.shard, h);
    rep.begin_history(h);
    let w = World::new(100, 16);
    let e = &w.env;
    let n = 4;
    let u = w.accounts(n);
    let s = |x: &str| SString::from_str(e, x);
    let c = e.register(examples::nft_access_control::ExampleContract, (s("uri"), s("N"), s("N"), u[0].clone()));
    rep.op("deploy nft-access-control admin=0".into());
    let minter = Symbol::new(e, "minter");
    let burner = Symbol::new(e, "burner");
    let mut has_m: BTreeSet<usize> = BTreeSet::new();
    let mut has_b: BTreeSet<usize> = BTreeSet::new();
    let mut admin: Option<usize> = Some(0);
    let mut owner_of: BTreeMap<u32, usize> = BTreeMap::new();
    let mut next_id = 0u32;
    for step in 0..steps {
        let caller = if rng.chance(1, 4) { admin.unwrap_or(0) } else { rng.idx(n) };
        let k = rng.below(100);
        let tok = if owner_of.is_empty() || rng.chance(1, 5) { next_id + 7 } else { *owner_of.keys().nth(rng.idx(owner_of.len())).unwrap() };
        let (f, av, principal, pre_ok): (&str, SVec<Val>, Option<usize>, bool) = if k < 15 {
            let who = rng.idx(n);
            let role_m = rng.chance(1, 2);
            let role = if role_m { minter.clone() } else { burner.clone() };
            let _ = role_m;
            ("grant_role", args!(e, u[who], role, u[caller]), Some(caller), admin == Some(caller))
        } else if k < 22 {
            let who = rng.idx(n);
            let role_m = rng.chance(1, 2);
            let held = if role_m { has_m.contains(&who) } else { has_b.contains(&who) };
            ("revoke_role", args!(e, u[who], if role_m { minter.clone() } else { burner.clone() }, u[caller]), Some(caller), admin == Some(caller) && held)
        } else if k < 24 && step * 4 > steps * 3 {
            ("renounce_admin", args!(e), admin.or(Some(usize::MAX)), admin.is_some())
        } else if k < 35 {
            ("admin_restricted_function", args!(e), admin.or(Some(usize::MAX)), admin.is_some())
        } else if k < 55 {
            let to = rng.idx(n);
            ("mint", args!(e, u[to], next_id, u[caller]), Some(caller), has_m.contains(&caller))
        } else if k < 67 {
            ("multi_role_action", args!(e, u[caller]), Some(caller), has_m.contains(&caller) || has_b.contains(&caller))
        } else if k < 79 {
            ("multi_role_auth_action", args!(e, u[caller]), Some(caller), has_m.contains(&caller) || has_b.contains(&caller))
        } else if k < 92 {
            // burn(from, id): #[has_role(from, "burner")] + Base::burn(from auth, from owns)
            ("burn", args!(e, u[caller], tok), Some(caller), has_b.contains(&caller) && owner_of.get(&tok) == Some(&caller))
        } else {
            // burn_from(spender, from, id): #[has_role(spender, "burner")]; the spender is the caller, `from`
            // the token's owner, who has made the caller an operator just before (so that the role check, not
            // the approval, decides)
            let from = owner_of.get(&tok).cloned().unwrap_or(caller);
            e.mock_all_auths();
            let _: Result<(), Fail> = invoke(e, &c, "approve_for_all", args!(e, u[from], u[caller], w.ledger() + 100));
            ("burn_from", args!(e, u[caller], u[from], tok), Some(caller), has_b.contains(&caller) && owner_of.contains_key(&tok))
        };
        let signers: Vec<usize> = if rng.chance(1, 2) {
            principal.into_iter().filter(|p| *p < n).collect()
        } else {
            let mask = rng.below(1 << n);
            (0..n).filter(|i| mask >> i & 1 == 1).collect()
        };
        let authorized = principal.map_or(true, |p| signers.contains(&p));
        let inv = Inv::new(&c, f, av.clone());
        let entries: Vec<(Address, Inv)> = signers.iter().map(|i| (u[*i].clone(), inv.clone())).collect();
        w.auth(&entries);
        w.reset_budget();
        let got: Result<Val, Fail> = invoke(e, &c, f, av.clone());
        rep.evaluations += 1;
        rep.op(format!("#{step} {f}({av:?}) caller={caller} signed by {signers:?} -> {}", tag(&got)));
        rep.case(format!("nft/{f}/priv={pre_ok}/auth={authorized}/{}", tag(&got)));
        rep.count(&format!("nft:{f}:{}", tag(&got)));
        let site = format!("nft-access-control/{f}");
        if got.is_ok() {
            rep.check("auth", authorized, &format!("C06/auth/{site}/succeeded-without-principal"), || {
                format!("{f} succeeded; principal {principal:?}, signers {signers:?}")
            });
            rep.check("auth", pre_ok, &format!("C06/auth/{site}/succeeded-without-privilege"), || {
                format!("{f} succeeded although caller {caller} lacks the privilege (minters {has_m:?}, burners {has_b:?}, admin {admin:?})")
            });
        }
        rep.check("ref", got.is_ok() == (pre_ok && authorized), &format!("C06/ref/{site}/outcome"), || {
            format!("{f} caller {caller} signed by {signers:?}: privilege {pre_ok}, authorized {authorized}, contract answered {got:?}")
        });
        if got.is_ok() {
            match f {
                "grant_role" | "revoke_role" => {
                    // re-read membership from the contract's getter into the local sets
                }
                "renounce_admin" => admin = None,
                "mint" => {
                    // args: to is first
                    let to: Address = soroban_sdk::TryFromVal::try_from_val(e, &av.get(0).unwrap()).unwrap();
                    owner_of.insert(next_id, u.iter().position(|x| *x == to).unwrap());
                    next_id += 1;
                }
                "burn" | "burn_from" => {
                    owner_of.remove(&tok);
                }
                _ => {}
            }
        }
        // membership model is maintained from the outcome of grant/revoke only when they succeeded
        if got.is_ok() && (f == "grant_role" || f == "revoke_role") {
            let who: Address = soroban_sdk::TryFromVal::try_from_val(e, &av.get(0).unwrap()).unwrap();
            let role: Symbol = soroban_sdk::TryFromVal::try_from_val(e, &av.get(1).unwrap()).unwrap();
            let wi = u.iter().position(|x| *x == who).unwrap();
            let set = if role == minter { &mut has_m } else { &mut has_b };
            if f == "grant_role" {
                set.insert(wi);
            } else {
                set.remove(&wi);
            }
        }
        for a in 0..n {
            let hm: Option<u32> = invoke(e, &c, "has_role", args!(e, u[a], minter.clone())).must("has_role");
            let hb: Option<u32> = invoke(e, &c, "has_role", args!(e, u[a], burner.clone())).must("has_role");
            rep.check("ref", hm.is_some() == has_m.contains(&a) && hb.is_some() == has_b.contains(&a), &format!("C06/ref/{site}/has_role"), || {
                format!("account {a}: minter={hm:?} burner={hb:?}; model minters {has_m:?} burners {has_b:?}")
            });
        }
    }
    rep.end_history();
}

/// ownable example: only_owner before and after renouncing.
fn history_ownable(cfg: &Cfg, rep: &mut Report, h: u64) {
    let mut rng = Rng::for_history(cfg.seed, "C06", cfg.shard, h);
    rep.begin_history(h);
    let w = World::new(100, 16);
    let e = &w.env;
    let n = 3;
    let u = w.accounts(n);
    let c = e.register(examples::ownable::ExampleContract, (u[0].clone(),));
    let mut owner = Some(0usize);
    let mut pending: Option<usize> = None;
    for step in 0..60 {
        // the owner changes hands during the history (the handshake itself is C07's subject): the guard
        // must follow the owner of the moment
        let k = rng.below(20);
        let new = rng.idx(n);
        let (f, av): (&str, SVec<Val>) = match k {
            0 if step > 15 => ("renounce_ownership", args!(e)),
            1..=3 => ("transfer_ownership", args!(e, u[new], w.ledger() + 1000)),
            4..=6 => ("accept_ownership", args!(e)),
            _ => ("increment", args!(e)),
        };
        let mask = rng.below(1 << n);
        let signers: Vec<usize> = (0..n).filter(|i| mask >> i & 1 == 1).collect();
        let inv = Inv::new(&c, f, av.clone());
        let entries: Vec<(Address, Inv)> = signers.iter().map(|i| (u[*i].clone(), inv.clone())).collect();
        w.auth(&entries);
        let got: Result<Val, Fail> = invoke(e, &c, f, av);
        rep.evaluations += 1;
        let owner_signed = owner.map_or(false, |o| signers.contains(&o));
        let want = match f {
            "accept_ownership" => pending.map_or(false, |p| signers.contains(&p)),
            "renounce_ownership" => owner_signed && pending.is_none(),
            _ => owner_signed,
        };
        rep.op(format!("#{step} {f} signed by {signers:?} (owner {owner:?}, pending {pending:?}) -> {}", tag(&got)));
        rep.case(format!("ownable/{f}/owner_set={}/pending={}/auth={want}/{}", owner.is_some(), pending.is_some(), tag(&got)));
        rep.check("auth", got.is_ok() == want, &format!("C06/auth/ownable/{f}/outcome"), || {
            format!("{f} signed by {signers:?} with owner {owner:?}, pending {pending:?}: contract answered {got:?}")
        });
        if got.is_ok() {
            match f {
                "renounce_ownership" => owner = None,
                "transfer_ownership" => pending = Some(new),
                "accept_ownership" => {
                    owner = pending;
                    pending = None;
                }
                _ => {}
            }
        }
        let go: Option<Address> = invoke(e, &c, "get_owner", args!(e)).must("get_owner");
        rep.check("ref", go == owner.map(|o| u[o].clone()), "C06/ref/ownable/get_owner", || format!("get_owner = {go:?}, model owner {owner:?}"));
    }
    rep.end_history();
}

/// Many roles: the list of existing roles at and around its documented limit (`MAX_ROLES`). A role exists
/// while it has a member; a grant that would create one more role than the limit is refused, a grant of a
/// role that already exists is not; a role that lost its last member makes room again.
fn history_many_roles(cfg: &Cfg, rep: &mut Report, h: u64) {
    let max = stellar_access::access_control::MAX_ROLES as usize;
    let mut rng = Rng::for_history(cfg.seed, "C06", cfg.shard, h);
    rep.begin_history(h);
    let w = World::new(100, 1);
    let e = &w.env;
    let n = 4;
    let u = w.accounts(n);
    let c = e.register(AcWrap, (u[0].clone(),));
    rep.op("deploy AcWrap admin=0 (many roles)".into());
    let name = |i: usize| Symbol::new(e, &format!("role_{i}"));
    // model: role number -> members
    let mut mm: BTreeMap<usize, BTreeSet<usize>> = BTreeMap::new();
    // order in which roles came into existence (the documented list is append / swap-remove; only the set is compared)
    let mut step = 0usize;
    let observe = |rep: &mut Report, mm: &BTreeMap<usize, BTreeSet<usize>>, site: &str, rng: &mut Rng, upto: usize| {
        let existing: SVec<Symbol> = invoke(e, &c, "get_existing_roles", args!(e)).must("get_existing_roles");
        let mut got: Vec<usize> = existing.iter().map(|s| (0..upto + 1).find(|i| name(*i) == s).unwrap_or(usize::MAX)).collect();
        let listed = got.len();
        got.sort();
        got.dedup();
        let want: Vec<usize> = mm.iter().filter(|(_, s)| !s.is_empty()).map(|(r, _)| *r).collect();
        rep.check("inv", got == want && listed == want.len(), &format!("C06/inv/many-roles/{site}/existing_roles"), || {
            format!("get_existing_roles lists {listed} entries ({} distinct); the model has {} roles with members; missing {:?}, extra {:?}", got.len(), want.len(), want.iter().filter(|r| !got.contains(r)).collect::<Vec<_>>(), got.iter().filter(|r| !want.contains(r)).collect::<Vec<_>>())
        });
        // a sample of roles in full
        for _ in 0..6 {
            let r = rng.idx(upto + 1);
            let set = mm.get(&r).cloned().unwrap_or_default();
            let count: u32 = invoke(e, &c, "get_role_member_count", args!(e, name(r))).must("get_role_member_count");
            rep.check("ref", count as usize == set.len(), &format!("C06/ref/many-roles/{site}/member_count"), || format!("role_{r}: count {count}, model {set:?}"));
            for a in 0..n {
                let hr: Option<u32> = invoke(e, &c, "has_role", args!(e, u[a], name(r))).must("has_role");
                rep.check("ref", hr.is_some() == set.contains(&a), &format!("C06/ref/many-roles/{site}/has_role"), || format!("has_role({a}, role_{r}) = {hr:?}, model {set:?}"));
            }
        }
        rep.evaluations += 1 + 6 * (1 + n as u64);
    };
    let mut next_new = 0usize;
    while step < max + 120 {
        step += 1;
        let existing_now = mm.values().filter(|s| !s.is_empty()).count();
        // fill quickly, then play at the limit
        let k = if existing_now < max - 2 { rng.below(20) } else { rng.below(100) };
        e.mock_all_auths();
        if existing_now < max - 2 && k < 19 || k < 35 {
            // grant a role that never existed (or, at the limit, one that was emptied before)
            let r = if rng.chance(1, 6) && mm.values().any(|s| s.is_empty()) { *mm.iter().filter(|(_, s)| s.is_empty()).map(|(r, _)| r).next().unwrap() } else { next_new };
            if r == next_new {
                next_new += 1;
            }
            let a = rng.idx(n);
            let got: Result<Val, Fail> = invoke(e, &c, "grant_role", args!(e, u[a], name(r), u[0]));
            let want_ok = existing_now < max;
            rep.evaluations += 1;
            rep.op(format!("#{step} grant role_{r} (new) to {a} with {existing_now} roles existing -> {}", tag(&got)));
            rep.case(format!("ac-many/grant-new/existing={}/{}", if existing_now == max { "at-limit" } else if existing_now + 1 == max { "one-below" } else { "below" }, tag(&got)));
            rep.check("ref", got.is_ok() == want_ok, "C06/ref/many-roles/grant_role/outcome", || format!("grant of new role_{r} with {existing_now} of {max} roles existing: model expects ok={want_ok}, contract answered {got:?}"));
            if got.is_ok() {
                mm.entry(r).or_default().insert(a);
                if existing_now + 1 == max {
                    rep.count("role_list_filled");
                }
            } else if existing_now == max {
                rep.count("role_beyond_limit_refused");
            }
        } else if k < 55 {
            // a second member for a role that exists: never limited
            let live: Vec<usize> = mm.iter().filter(|(_, s)| !s.is_empty()).map(|(r, _)| *r).collect();
            if live.is_empty() {
                continue;
            }
            let r = *rng.pick(&live);
            let a = rng.idx(n);
            let got: Result<Val, Fail> = invoke(e, &c, "grant_role", args!(e, u[a], name(r), u[0]));
            rep.evaluations += 1;
            rep.op(format!("#{step} grant role_{r} (existing) to {a} with {existing_now} roles existing -> {}", tag(&got)));
            rep.case(format!("ac-many/grant-existing/at-limit={}/{}", existing_now == max, tag(&got)));
            rep.check("ref", got.is_ok(), "C06/ref/many-roles/grant_role/outcome", || format!("grant of existing role_{r} to {a} with {existing_now} roles existing refused: {got:?}"));
            if got.is_ok() {
                mm.entry(r).or_default().insert(a);
            }
        } else {
            // revoke / renounce a member, often the last one of its role
            let live: Vec<usize> = mm.iter().filter(|(_, s)| !s.is_empty()).map(|(r, _)| *r).collect();
            if live.is_empty() {
                continue;
            }
            // first, last and random positions of the list
            let r = match rng.below(4) {
                0 => live[0],
                1 => *live.last().unwrap(),
                _ => *rng.pick(&live),
            };
            let a = *mm[&r].iter().nth(rng.idx(mm[&r].len())).unwrap();
            let (f, got): (&str, Result<Val, Fail>) = if rng.chance(1, 3) { ("renounce_role", invoke(e, &c, "renounce_role", args!(e, name(r), u[a]))) } else { ("revoke_role", invoke(e, &c, "revoke_role", args!(e, u[a], name(r), u[0]))) };
            rep.evaluations += 1;
            rep.op(format!("#{step} {f} role_{r} of {a} -> {}", tag(&got)));
            rep.case(format!("ac-many/{f}/last-member={}/{}", mm[&r].len() == 1, tag(&got)));
            rep.check("ref", got.is_ok(), &format!("C06/ref/many-roles/{f}/outcome"), || format!("{f} of role_{r} held by {a} refused: {got:?}"));
            if got.is_ok() {
                mm.get_mut(&r).unwrap().remove(&a);
            }
        }
        if step % 16 == 0 || mm.values().filter(|s| !s.is_empty()).count() >= max - 1 {
            observe(rep, &mm, "step", &mut rng, next_new);
        }
    }
    observe(rep, &mm, "end", &mut rng, next_new);
    rep.end_history();
}

pub fn run(cfg: &Cfg, rep: &mut Report) {
    rep.rule = "Seeded histories on (a) an AccessControl wrapper exposing the whole trait and one entry point per guard macro, 5 accounts x 5 roles (one of them with the empty name) with role-admin chains and cycles, (b) the nft-access-control example, (c) the ownable example, (d) one wrapper driven to and around the documented limit of 256 existing roles (a 257th is refused, a further member of an existing role is not, an emptied role makes room); every call signed by the necessary principal alone (1/2) or a uniformly random subset of all accounts. Distinct case = (contract, entry point, caller kind {admin, role-admin by chain depth, member, stranger}, principal signed?, outcome).".into();
    let nh = cfg.pick(40u64, 900);
    let steps = cfg.pick(150usize, 300);
    for k in 0..nh {
        if cfg.runs(k) {
            history_ac(cfg, rep, k, steps);
        }
        if cfg.runs(10_000 + k) {
            history_nft(cfg, rep, 10_000 + k, steps);
        }
        if cfg.runs(20_000 + k) {
            history_ownable(cfg, rep, 20_000 + k);
        }
    }
    for k in 0..cfg.pick(1u64, 12) {
        if cfg.runs(30_000 + k) {
            history_many_roles(cfg, rep, 30_000 + k);
        }
    }
    rep.floor_on("role_list_filled", 1, &["role_list_filled"]);
    rep.floor_on("role_beyond_limit_refused", 1, &["role_beyond_limit_refused"]);
    rep.floor_on("grants", 50, &["grant_role:ok"]);
    rep.floor_on("revokes", 20, &["revoke_role:ok"]);
}
