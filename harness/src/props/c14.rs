//! C14 — account policies enforce exactly their threshold, weight and spending rules.
//! Exhaustive signer-subset sweeps for the two threshold policies; full-history window model for the
//! spending limit; can_enforce == enforce agreement; enforce only with the account's authorization;
//! no residue after a rejected attempt.
use crate::args;
use crate::contracts::policies::WeightedPolicy;
use crate::examples::spending_limit_policy::SpendingLimitPolicyContract;
use crate::examples::threshold_policy::ThresholdPolicyContract;
use crate::report::Report;
use crate::rng::Rng;
use crate::world::{Must, invoke, tag, Fail, Inv, World};
use crate::Cfg;
use soroban_sdk::auth::{Context, ContractContext, CreateContractHostFnContext, ContractExecutable};
use soroban_sdk::{Address, Bytes, BytesN, Env, IntoVal, Map, String as SString, Symbol, Val, Vec as SVec};
use stellar_accounts::policies::simple_threshold::SimpleThresholdAccountParams;
use stellar_accounts::policies::spending_limit::{SpendingLimitAccountParams, SpendingLimitData};
use stellar_accounts::policies::weighted_threshold::WeightedThresholdAccountParams;
use stellar_accounts::smart_account::{ContextRule, ContextRuleType, Signer};

fn rule(e: &Env, id: u32, signers: &[Signer]) -> ContextRule {
    let mut v: SVec<Signer> = SVec::new(e);
    for s in signers {
        v.push_back(s.clone());
    }
    ContextRule { id, context_type: ContextRuleType::Default, name: SString::from_str(e, "r"), signers: v, policies: SVec::new(e), valid_until: None }
}

fn transfer_ctx(e: &Env, token: &Address, from: &Address, to: &Address, amount: i128) -> Context {
    Context::Contract(ContractContext { contract: token.clone(), fn_name: Symbol::new(e, "transfer"), args: args!(e, from.clone(), to.clone(), amount) })
}

fn signers_vec(e: &Env, s: &[Signer]) -> SVec<Signer> {
    let mut v = SVec::new(e);
    for x in s {
        v.push_back(x.clone());
    }
    v
}

/// Call a policy entry point with or without the account's authorization.
fn call(w: &World, policy: &Address, account: &Address, f: &str, a: SVec<Val>, signed: bool) -> Result<Val, Fail> {
    if signed {
        w.auth(&[(account.clone(), Inv::new(policy, f, a.clone()))]);
    } else {
        w.no_auth();
    }
    w.reset_budget();
    invoke(&w.env, policy, f, a)
}

// ------------------------------------------------------------------ simple + weighted thresholds
fn thresholds(cfg: &Cfg, rep: &mut Report) {
    let mut k = 0u64;
    for weighted in [false, true] {
        for n in 1..=5usize {
            for variant in 0..cfg.pick(4u64, 8) {
                k += 1;
                let h = 1000 + k;
                if h % cfg.nshards as u64 != cfg.shard as u64 || !cfg.runs(h) {
                    continue;
                }
                let mut rng = Rng::for_history(cfg.seed, "C14", 0, h);
                rep.begin_history(h);
                let w = World::new(10, 16);
                let e = &w.env;
                let account = w.account();
                let policy: Address = if weighted { e.register(WeightedPolicy, ()) } else { e.register(ThresholdPolicyContract, ()) };
                let pname = if weighted { "weighted" } else { "simple" };
                let verifier = w.account();
                let signers: Vec<Signer> = (0..n)
                    .map(|i| if i % 2 == 0 { Signer::Delegated(w.account()) } else { Signer::External(verifier.clone(), Bytes::from_array(e, &[i as u8; 32])) })
                    .collect();
                let outsider = Signer::Delegated(w.account());
                // weights: small, equal, one dominant, or near u32::MAX
                let weights: Vec<u32> = (0..n)
                    .map(|i| match variant % 4 {
                        0 => 1 + i as u32,
                        1 => 5,
                        2 => if i == 0 { 100 } else { 1 },
                        _ => *rng.pick(&[u32::MAX / n as u32, (u32::MAX / n as u32).saturating_add(1), 1_000_000, u32::MAX - 3, 2]),
                    })
                    .collect();
                let total: u64 = weights.iter().map(|x| *x as u64).sum();
                let ctx = transfer_ctx(e, &w.account(), &account, &w.account(), 5);
                let mut rule_id = 0u32;
                let mut prev_rule: Option<(u32, u32)> = None;
                let stranger_account = w.account();
                let tlist: Vec<u64> = if weighted {
                    let mut t: Vec<u64> = vec![0, 1, total.saturating_sub(1), total, total + 1, weights[0] as u64, weights[0] as u64 + 1];
                    t.extend((0..3).map(|_| rng.below(total + 2)));
                    t.retain(|x| *x <= u32::MAX as u64);
                    t.sort();
                    t.dedup();
                    t
                } else {
                    (0..=n as u64 + 1).collect()
                };
                for t in tlist {
                    rule_id += 1;
                    let r = rule(e, rule_id, &signers);
                    let t32 = t as u32;
                    // installation: refused for a zero or unreachable threshold (and overflowing weights)
                    let (params, want_install): (Val, bool) = if weighted {
                        let mut mw: Map<Signer, u32> = Map::new(e);
                        for (s, wt) in signers.iter().zip(&weights) {
                            mw.set(s.clone(), *wt);
                        }
                        (WeightedThresholdAccountParams { signer_weights: mw, threshold: t32 }.into_val(e), total <= u32::MAX as u64 && t >= 1 && t <= total)
                    } else {
                        (SimpleThresholdAccountParams { threshold: t32 }.into_val(e), t >= 1 && t <= n as u64)
                    };
                    let a = args!(e, params, r.clone(), account.clone());
                    let unsigned = call(&w, &policy, &account, "install", a.clone(), false);
                    rep.check("auth", unsigned.is_err(), &format!("C14/auth/{pname}/install/without-account-authorization"), || format!("install(threshold {t}) without the account's authorization: {unsigned:?}"));
                    let got = call(&w, &policy, &account, "install", a, true);
                    rep.evaluations += 2;
                    rep.op(format!("{pname} n={n} weights={weights:?} install threshold={t} -> {}", tag(&got)));
                    rep.case(format!("{pname}/install/n={n}/t={}/{}", if t == 0 { "zero".into() } else if t > if weighted { total } else { n as u64 } { "unreachable".into() } else { format!("ok{}", t.min(6)) }, tag(&got)));
                    rep.check("ref", got.is_ok() == want_install, &format!("C14/ref/{pname}/install/outcome"), || {
                        format!("install threshold {t} with {n} signers weights {weights:?} (total {total}): expected ok={want_install}, got {got:?}")
                    });
                    if got.is_err() {
                        // not installed: can_enforce must say no, enforce must fail
                        let sv = signers_vec(e, &signers);
                        let ce: Result<bool, Fail> = invoke(e, &policy, "can_enforce", args!(e, ctx.clone(), sv.clone(), r.clone(), account.clone()));
                        let en = call(&w, &policy, &account, "enforce", args!(e, ctx.clone(), sv, r.clone(), account.clone()), true);
                        rep.check("res", ce == Ok(false) && en.is_err(), &format!("C14/res/{pname}/install/refused-install-left-policy-active"), || format!("after refused install: can_enforce {ce:?}, enforce {en:?}"));
                        continue;
                    }
                    // the installation outlives any number of ledgers
                    if rng.chance(1, 3) {
                        w.set_ledger(w.ledger() + 600_000);
                    }
                    // every subset of the rule's signers (+ an outsider in half of them)
                    for mask in 0u32..(1 << n) {
                        for with_outsider in [false, true] {
                            let mut sub: Vec<Signer> = (0..n).filter(|i| mask >> i & 1 == 1).map(|i| signers[i].clone()).collect();
                            if with_outsider {
                                if weighted {
                                    // (anywhere in the list: the account passes signers in rule order)
                                    let pos = (mask as usize) % (sub.len() + 1);
                                    sub.insert(pos, outsider.clone());
                                } else {
                                    continue; // the simple policy counts what the account hands over; the account filters
                                }
                            }
                            let have: u64 = if weighted { (0..n).filter(|i| mask >> i & 1 == 1).map(|i| weights[i] as u64).sum() } else { mask.count_ones() as u64 };
                            let want = have >= t;
                            let sv = signers_vec(e, &sub);
                            let ce: Result<bool, Fail> = invoke(e, &policy, "can_enforce", args!(e, ctx.clone(), sv.clone(), r.clone(), account.clone()));
                            let ea = args!(e, ctx.clone(), sv.clone(), r.clone(), account.clone());
                            let en_unsigned = call(&w, &policy, &account, "enforce", ea.clone(), false);
                            let en = call(&w, &policy, &account, "enforce", ea, true);
                            rep.evaluations += 3;
                            rep.case(format!("{pname}/enforce/n={n}/have-vs-threshold={}/{}", if have < t { "below" } else if have == t { "equal" } else { "above" }, tag(&en)));
                            rep.check("ref", ce == Ok(want), &format!("C14/ref/{pname}/can_enforce"), || {
                                format!("threshold {t}, subset mask {mask:b} of weights {weights:?} (have {have}): can_enforce = {ce:?}, expected {want}")
                            });
                            rep.check("ref", en.is_ok() == want, &format!("C14/ref/{pname}/enforce"), || format!("threshold {t}, subset mask {mask:b} (have {have}): enforce = {en:?}, expected ok={want}"));
                            rep.check("agree", ce.clone().unwrap_or(false) == en.is_ok(), &format!("C14/agree/{pname}/can_enforce-vs-enforce"), || format!("threshold {t} mask {mask:b}: can_enforce {ce:?} but enforce {en:?}"));
                            rep.check("auth", en_unsigned.is_err(), &format!("C14/auth/{pname}/enforce/without-account-authorization"), || format!("enforce without the account's authorization: {en_unsigned:?}"));
                        }
                    }
                    // the parameters belong to (account, rule): another account has nothing under this rule id,
                    // and the rule installed before this one still answers with ITS threshold
                    {
                        let other: Result<u32, Fail> = invoke(e, &policy, "get_threshold", args!(e, rule_id, stranger_account.clone()));
                        rep.check("ref", other.is_err(), &format!("C14/ref/{pname}/get_threshold/answered-for-another-account"), || format!("get_threshold(rule {rule_id}) for an account that never installed the policy: {other:?}"));
                        if let Some((pid, pt)) = prev_rule {
                            let g: Result<u32, Fail> = invoke(e, &policy, "get_threshold", args!(e, pid, account.clone()));
                            rep.check("ref", g == Ok(pt), &format!("C14/ref/{pname}/get_threshold/earlier-rule-changed-by-later-install"), || format!("rule {pid} was left with threshold {pt}; after installing rule {rule_id} (threshold {t}) it reports {g:?}"));
                        }
                    }
                    // set_threshold: same validity rule; the threshold in force is modelled from the calls
                    // that succeeded, never read back, and every subset is judged against it
                    let mut mt: u64 = t;
                    for t2 in [0u64, 1, if weighted { total } else { n as u64 }, if weighted { total + 1 } else { n as u64 + 1 }, (if weighted { total } else { n as u64 } + 1) / 2] {
                        if t2 > u32::MAX as u64 {
                            continue;
                        }
                        let a = args!(e, t2 as u32, r.clone(), account.clone());
                        let unsigned = call(&w, &policy, &account, "set_threshold", a.clone(), false);
                        rep.check("auth", unsigned.is_err(), &format!("C14/auth/{pname}/set_threshold/without-account-authorization"), || format!("set_threshold({t2}) without the account's authorization: {unsigned:?}"));
                        let got = call(&w, &policy, &account, "set_threshold", a, true);
                        let want = t2 >= 1 && t2 <= if weighted { total } else { n as u64 };
                        rep.evaluations += 2;
                        rep.check("ref", got.is_ok() == want, &format!("C14/ref/{pname}/set_threshold/outcome"), || format!("set_threshold({t2}) with reach {}: {got:?}", if weighted { total } else { n as u64 }));
                        if got.is_ok() {
                            mt = t2;
                        }
                        let cur: u32 = invoke(e, &policy, "get_threshold", args!(e, rule_id, account.clone())).must("get_threshold");
                        rep.check("ref", cur as u64 == mt, &format!("C14/ref/{pname}/set_threshold/threshold-in-force"), || format!("after set_threshold({t2}) -> {}: get_threshold = {cur}, the calls that succeeded so far imply {mt}", tag(&got)));
                        for mask in 0u32..(1 << n) {
                            let sub: Vec<Signer> = (0..n).filter(|i| mask >> i & 1 == 1).map(|i| signers[i].clone()).collect();
                            let have: u64 = if weighted { (0..n).filter(|i| mask >> i & 1 == 1).map(|i| weights[i] as u64).sum() } else { mask.count_ones() as u64 };
                            let ce: Result<bool, Fail> = invoke(e, &policy, "can_enforce", args!(e, ctx.clone(), signers_vec(e, &sub), r.clone(), account.clone()));
                            rep.evaluations += 1;
                            rep.check("ref", ce == Ok(have >= mt), &format!("C14/ref/{pname}/can_enforce-after-set_threshold"), || format!("threshold now {mt} (set_threshold({t2}) -> {}), subset {mask:b} (have {have}): can_enforce = {ce:?}", tag(&got)));
                        }
                    }
                    prev_rule = Some((rule_id, mt as u32));
                    // weight edits (weighted): refused when the new total overflows u32 or no longer reaches the
                    // threshold; after an accepted edit every subset is re-evaluated against the new map
                    if weighted && total <= u32::MAX as u64 {
                        let mut wts: Vec<u64> = weights.iter().map(|x| *x as u64).collect();
                        let cur_t: u32 = mt as u32;
                        for (si, nw) in [(n - 1, u32::MAX), (0usize, weights[0].saturating_add(7)), (n / 2, u32::MAX - 1), (0usize, 1u32)] {
                            let mut cand = wts.clone();
                            cand[si] = nw as u64;
                            let nt: u64 = cand.iter().sum();
                            let want = nt <= u32::MAX as u64 && (cur_t as u64) <= nt;
                            let unsigned = call(&w, &policy, &account, "set_signer_weight", args!(e, signers[si].clone(), nw, r.clone(), account.clone()), false);
                            rep.check("auth", unsigned.is_err(), "C14/auth/weighted/set_signer_weight/without-account-authorization", || format!("set_signer_weight without the account's authorization: {unsigned:?}"));
                            let got = call(&w, &policy, &account, "set_signer_weight", args!(e, signers[si].clone(), nw, r.clone(), account.clone()), true);
                            rep.evaluations += 2;
                            rep.case(format!("weighted/set_signer_weight/{}/{}", if nt > u32::MAX as u64 { "overflowing-total" } else if (cur_t as u64) > nt { "unreachable" } else { "fine" }, tag(&got)));
                            rep.check("ref", got.is_ok() == want, "C14/ref/weighted/set_signer_weight/outcome", || {
                                format!("set weight of signer {si} to {nw}: new total {nt}, threshold {cur_t}: expected ok={want}, got {got:?}")
                            });
                            if got.is_ok() {
                                wts = cand;
                            }
                            for mask in 0u32..(1 << n) {
                                let sub: Vec<Signer> = (0..n).filter(|i| mask >> i & 1 == 1).map(|i| signers[i].clone()).collect();
                                let have: u64 = (0..n).filter(|i| mask >> i & 1 == 1).map(|i| wts[i]).sum();
                                let ce: Result<bool, Fail> = invoke(e, &policy, "can_enforce", args!(e, ctx.clone(), signers_vec(e, &sub), r.clone(), account.clone()));
                                rep.evaluations += 1;
                                rep.check("ref", ce == Ok(have >= cur_t as u64), "C14/ref/weighted/can_enforce-after-weight-edit", || {
                                    format!("weights {wts:?} threshold {cur_t} subset {mask:b} (have {have}): can_enforce = {ce:?}")
                                });
                            }
                        }
                        // restore the original weight map for the remaining steps
                        for i in 0..n {
                            let _ = call(&w, &policy, &account, "set_signer_weight", args!(e, signers[i].clone(), weights[i], r.clone(), account.clone()), true);
                        }
                    }
                    if weighted && total <= u32::MAX as u64 {
                        let cur: u32 = mt as u32;
                        let new_total = total - weights[0] as u64;
                        let got = call(&w, &policy, &account, "set_signer_weight", args!(e, signers[0].clone(), 0u32, r.clone(), account.clone()), true);
                        rep.check("ref", got.is_ok() == (cur as u64 <= new_total), &format!("C14/ref/{pname}/set_signer_weight/outcome"), || {
                            format!("set weight of signer 0 to 0 (threshold {cur}, remaining total {new_total}): {got:?}")
                        });
                    }
                    // uninstall needs the account too
                    let un = call(&w, &policy, &account, "uninstall", args!(e, r.clone(), account.clone()), false);
                    rep.check("auth", un.is_err(), &format!("C14/auth/{pname}/uninstall/without-account-authorization"), || format!("{un:?}"));
                }
                rep.end_history();
            }
        }
    }
}

// ------------------------------------------------------------------ spending limit
fn spending(cfg: &Cfg, rep: &mut Report, h: u64, steps: usize, to_bound: bool) {
    let mut rng = Rng::for_history(cfg.seed, "C14", cfg.shard, h);
    rep.begin_history(h);
    let w = World::new(1 + rng.below(40) as u32, 16);
    let e = &w.env;
    let account = w.account();
    let policy = e.register(SpendingLimitPolicyContract, ());
    let token = w.account();
    let dest = w.account();
    let s1 = Signer::Delegated(w.account());
    let r = rule(e, 7, &[s1.clone()]);
    let some = signers_vec(e, &[s1.clone()]);
    let none: SVec<Signer> = SVec::new(e);
    let mut installed = false;
    let mut limit: i128 = 0;
    let mut period: u32 = 0;
    // the FULL list of authorized (ledger, amount) since the installation — never pruned
    let mut authorized: Vec<(u32, i128)> = vec![];
    rep.op(format!("deploy spending-limit policy ledger={}", w.ledger()));
    // a bystander: another account under the SAME rule id, and the same account under ANOTHER rule id,
    // both installed once and never used - whatever happens above must not show in their data
    let account_b = w.account();
    let r_other = rule(e, 8, &[s1.clone()]);
    let by_params = SpendingLimitAccountParams { spending_limit: 777, period_ledgers: 9 };
    let by1 = call(&w, &policy, &account_b, "install", args!(e, by_params.clone(), r.clone(), account_b.clone()), true);
    let by2 = call(&w, &policy, &account, "install", args!(e, by_params.clone(), r_other.clone(), account.clone()), true);
    let bystanders_ok = by1.is_ok() && by2.is_ok();
    let data = |w: &World| -> Option<SpendingLimitData> { invoke(&w.env, &policy, "get_spending_limit_data", args!(&w.env, 7u32, account.clone())).ok() };
    // an account that never installs the policy: nothing may be enforced for it, at any time
    let account_c = w.account();
    let never_installed = |rep: &mut Report, w: &World, site: &str| {
        let e = &w.env;
        let ctx = transfer_ctx(e, &token, &account_c, &dest, 1);
        let ce: Result<bool, Fail> = invoke(e, &policy, "can_enforce", args!(e, ctx.clone(), some.clone(), r.clone(), account_c.clone()));
        let en = call(w, &policy, &account_c, "enforce", args!(e, ctx, some.clone(), r.clone(), account_c.clone()), true);
        let d: Result<SpendingLimitData, Fail> = invoke(e, &policy, "get_spending_limit_data", args!(e, 7u32, account_c.clone()));
        rep.evaluations += 3;
        rep.case(format!("spending/never-installed/{site}/can_enforce={}/enforce={}", tag(&ce), tag(&en)));
        rep.check("ref", ce == Ok(false) && en.is_err() && d.is_err(), "C14/ref/spending/account-that-never-installed-the-policy", || format!("{site}: can_enforce {ce:?}, enforce {en:?}, data {:?}", d.as_ref().map(|_| "present").map_err(|f| f.tag())));
    };
    never_installed(rep, &w, "start");
    for step in 0..steps {
        if step % 25 == 24 {
            never_installed(rep, &w, "later");
        }
        let cur = w.ledger();
        let k = if !installed { 0 } else if to_bound { 30 + rng.below(60) } else { rng.below(100) };
        if k < 8 {
            // (re)install
            let l = *rng.pick(&[0i128, -1, 1, 100, 1000, 1_000_000, i128::MAX]);
            let p = if to_bound { 5000 } else { *rng.pick(&[0u32, 1, 2, 5, 10, 100, 100, u32::MAX, u32::MAX - 4]) };
            let params = SpendingLimitAccountParams { spending_limit: l, period_ledgers: p };
            let a = args!(e, params, r.clone(), account.clone());
            let unsigned = call(&w, &policy, &account, "install", a.clone(), false);
            let got = call(&w, &policy, &account, "install", a, true);
            rep.evaluations += 2;
            let want = !installed && l > 0 && p > 0;
            rep.op(format!("#{step} @{cur} install limit={l} period={p} -> {}", tag(&got)));
            rep.case(format!("spending/install/{}/{}", if l <= 0 || p == 0 { "invalid" } else if installed { "twice" } else { "valid" }, tag(&got)));
            rep.check("auth", unsigned.is_err(), "C14/auth/spending/install/without-account-authorization", || format!("{unsigned:?}"));
            rep.check("ref", got.is_ok() == want, "C14/ref/spending/install/outcome", || format!("install limit {l} period {p} (installed before: {installed}): {got:?}"));
            if got.is_ok() {
                installed = true;
                limit = l;
                period = p;
                authorized.clear();
            }
        } else if k < 12 {
            let un = call(&w, &policy, &account, "uninstall", args!(e, r.clone(), account.clone()), rng.chance(3, 4));
            rep.op(format!("#{step} @{cur} uninstall -> {}", tag(&un)));
            if un.is_ok() {
                installed = false;
                authorized.clear();
            }
        } else if k < 22 {
            let l = *rng.pick(&[0i128, -5, 1, 50, limit / 2, limit.saturating_add(1), 10_000]);
            let signed = rng.chance(4, 5);
            let got = call(&w, &policy, &account, "set_spending_limit", args!(e, l, r.clone(), account.clone()), signed);
            rep.evaluations += 1;
            rep.op(format!("#{step} @{cur} set_spending_limit {l} signed={signed} -> {}", tag(&got)));
            rep.check("ref", got.is_ok() == (signed && l > 0), "C14/ref/spending/set_spending_limit/outcome", || format!("set_spending_limit({l}) signed={signed}: {got:?}"));
            if got.is_ok() {
                limit = l;
            }
        } else if k < 34 && to_bound {
            // spread the entries over ledgers; once the history is full, move to where the oldest
            // entries leave the window (one before, at, one after) so that bound and eviction meet
            let cutoff = cur.saturating_sub(period);
            let live: Vec<u32> = authorized.iter().filter(|(l, _)| *l > cutoff).map(|x| x.0).collect();
            let t = if live.len() >= 1000 {
                let oldest = *live.iter().min().unwrap();
                (oldest + period).saturating_sub(1) + rng.below(3) as u32
            } else {
                cur + 1
            };
            if t > cur {
                w.set_ledger(t);
                rep.op(format!("ledger -> {t} (live entries {})", live.len()));
                rep.count("ledger_moves");
                if live.len() >= 1000 {
                    rep.count("bound_meets_eviction");
                }
            }
        } else if k < 34 && !to_bound {
            let adv = if rng.chance(1, 20) { 600_000 } else { (*rng.pick(&[1u32, 1, 2, period.max(1) - 1, period.max(1), period.saturating_add(1), 3])).min(2_000_000) };
            if adv > 0 {
                w.set_ledger(cur + adv);
                rep.op(format!("ledger -> {}", cur + adv));
                rep.count("ledger_moves");
            }
        } else {
            // an authorization batch: 1-3 transfers in this ledger (malformed contexts mixed in)
            let nb = if to_bound { 6 } else { 1 + rng.idx(3) };
            for _ in 0..nb {
                let cutoff = cur.saturating_sub(period);
                let live: Vec<(u32, i128)> = authorized.iter().filter(|(l, _)| *l > cutoff).cloned().collect();
                let wsum: i128 = live.iter().map(|x| x.1).sum();
                let room = limit.saturating_sub(wsum);
                let amount: i128 = if to_bound { *rng.pick(&[0i128, 0, 0, 1]) } else { *rng.pick(&[0i128, 1, 2, room, room.saturating_add(1), room - 1, room / 2, limit, i128::MAX, 7]) }.max(0);
                let kind = if to_bound { 0 } else { rng.below(14) };
                let (ctx, well_formed): (Context, bool) = match kind {
                    0..=9 => (transfer_ctx(e, &token, &account, &dest, amount), true),
                    10 => (Context::Contract(ContractContext { contract: token.clone(), fn_name: Symbol::new(e, "approve"), args: args!(e, account.clone(), dest.clone(), amount) }), false),
                    11 => (Context::Contract(ContractContext { contract: token.clone(), fn_name: Symbol::new(e, "transfer"), args: args!(e, account.clone(), dest.clone()) }), false),
                    12 => (Context::Contract(ContractContext { contract: token.clone(), fn_name: Symbol::new(e, "transfer"), args: args!(e, account.clone(), dest.clone(), 5u32) }), false),
                    _ => (Context::CreateContractHostFn(CreateContractHostFnContext { executable: ContractExecutable::Wasm(BytesN::from_array(e, &[3u8; 32])), salt: BytesN::from_array(e, &[4u8; 32]) }), false),
                };
                let with_signers = rng.chance(9, 10);
                let sv = if with_signers { some.clone() } else { none.clone() };
                let signed = rng.chance(9, 10);
                let before = data(&w);
                let ce: Result<bool, Fail> = invoke(e, &policy, "can_enforce", args!(e, ctx.clone(), sv.clone(), r.clone(), account.clone()));
                let got = call(&w, &policy, &account, "enforce", args!(e, ctx.clone(), sv.clone(), r.clone(), account.clone()), signed);
                rep.evaluations += 2;
                let fits = wsum.checked_add(amount).map_or(false, |x| x <= limit);
                let policy_ok = installed && well_formed && with_signers && fits && (live.len() as u32) < 1000;
                let want = policy_ok && signed;
                let pos = if authorized.iter().any(|(l, _)| *l == cutoff) { "entry-at-window-edge" } else if authorized.iter().any(|(l, _)| *l == cutoff + 1) { "entry-just-inside" } else if live.is_empty() { "empty-window" } else { "inside" };
                rep.op(format!("#{step} @{cur} enforce kind={kind} amount={amount} signers={with_signers} signed={signed} (window sum {wsum}, limit {limit}, period {period}, live entries {}) -> {}", live.len(), tag(&got)));
                rep.case(format!("spending/enforce/{}/{pos}/hist={}/{}", if well_formed { if fits { "fits" } else { "exceeds" } } else { "malformed" }, match live.len() { 0 => "0", 1..=9 => "<10", 10..=998 => "<999", _ => "at-bound" }, tag(&got)));
                rep.count(&format!("enforce:{}", tag(&got)));
                rep.check("ref", got.is_ok() == want, "C14/ref/spending/enforce/outcome", || {
                    format!("enforce(amount {amount}, kind {kind}) at ledger {cur}: window (>{cutoff}) sum {wsum}, limit {limit}, period {period}, live entries {}, signers {with_signers}, signed {signed}: expected ok={want}, got {got:?}; all authorized {:?}", live.len(), &authorized[authorized.len().saturating_sub(12)..])
                });
                // can_enforce agrees with what enforce (with the account's authorization) does
                if signed {
                    rep.check("agree", ce.clone().unwrap_or(false) == got.is_ok(), "C14/agree/spending/can_enforce-vs-enforce", || format!("amount {amount} kind {kind} at ledger {cur}: can_enforce {ce:?}, enforce {got:?}"));
                } else {
                    rep.check("auth", got.is_err(), "C14/auth/spending/enforce/without-account-authorization", || format!("{got:?}"));
                    // a trap (i128 overflow of window sum + amount) is "no answer": it must not be a yes
                    if ce.is_err() {
                        rep.count("can_enforce_trapped");
                    }
                    rep.check("ref", ce.clone().unwrap_or(false) == policy_ok, "C14/ref/spending/can_enforce", || format!("can_enforce {ce:?}, expected {policy_ok}"));
                }
                if got.is_ok() {
                    authorized.push((cur, amount));
                    // the statement itself: everything authorized in the trailing window fits the limit in force
                    let total: i128 = authorized.iter().filter(|(l, _)| *l > cutoff).map(|x| x.1).sum();
                    rep.check("window", total <= limit, "C14/window/spending/limit-exceeded-within-window", || {
                        format!("after authorizing {amount} at ledger {cur}: transfers authorized in ledgers ({cutoff}, {cur}] sum to {total} > limit {limit}")
                    });
                    if live.len() + 1 >= 999 {
                        rep.count("reached_history_bound");
                    }
                } else {
                    let after = data(&w);
                    rep.check("res", before == after, "C14/res/spending/enforce/rejected-attempt-left-a-trace", || format!("rejected enforce changed the policy data: {before:?} -> {after:?}"));
                }
            }
        }
    }
    if bystanders_ok {
        for (who, rid, label) in [(&account_b, 7u32, "other account, same rule id"), (&account, 8u32, "same account, other rule id")] {
            let d: Option<SpendingLimitData> = invoke(e, &policy, "get_spending_limit_data", args!(e, rid, who.clone())).ok();
            let ok = d.as_ref().map_or(false, |d| d.spending_limit == 777 && d.period_ledgers == 9 && d.spending_history.is_empty() && d.cached_total_spent == 0);
            rep.check("ref", ok, "C14/ref/spending/bystander-installation-changed", || format!("the installation of the {label} (limit 777, period 9, never used) now reads {d:?}"));
        }
    }
    rep.end_history();
}

pub fn run(cfg: &Cfg, rep: &mut Report) {
    rep.rule = "(a) exhaustive: simple-threshold example and a weighted-threshold wrapper, n = 1..=5 signers, every threshold 0..=n+1 (weighted: 0,1,total-1,total,total+1 and random, weight maps incl. sums beyond u32::MAX), EVERY subset of the signers (+ an outsider) through can_enforce and enforce, with and without the account's authorization; (b) seeded histories on the spending-limit example: install/uninstall/set limit, 1-3 transfers per ledger with amounts around the remaining room, ledger moves of {1,2,P-1,P,P+1}, malformed and non-transfer contexts, one history in every fourth shard (thorough: every shard) driven to the 1000-entry bound with the entries spread over ledgers, then moved to where the oldest entries leave the window. Distinct case = (policy, op, have-vs-threshold class or window position / history length class, outcome).".into();
    thresholds(cfg, rep);
    let nh = cfg.pick(30u64, 250);
    for k in 0..nh {
        let h = 50_000 + k;
        if cfg.runs(h) {
            spending(cfg, rep, h, cfg.pick(150, 300), false);
        }
    }
    if cfg.runs(60_000) && (cfg.shard % 4 == 0 || cfg.thorough()) {
        spending(cfg, rep, 60_000, 500, true);
    }
    rep.floor_on("spending_enforce_ok", 200, &["enforce:ok"]);
    rep.floor_on("ledger_moves", 50, &["ledger_moves"]);
}
