//! C20 — registries behave as the sets and maps they represent under any edit history.
//! One REF model per registry; every getter is compared after every operation; capacity limits are
//! driven to the limit and one past it.
use crate::args;
use crate::contracts::identity::{CtiC, IdentityC, IrsC, IssuerC};
use crate::contracts::registries::{BinderC, ComplC, DocsC, YesIssuer};
use crate::contracts::sa::MockPolicy;
use crate::examples::msa_account::MultisigContract;
use crate::report::Report;
use crate::rng::Rng;
use crate::world::{invoke, tag, Fail, World};
use crate::Cfg;
use sha3::Digest;
use soroban_sdk::xdr::ToXdr;
use soroban_sdk::{Address, Bytes, BytesN, Env, Map, String as SString, Symbol, Val, Vec as SVec};
use std::collections::{BTreeMap, BTreeSet};
use stellar_accounts::smart_account::{ContextRule, ContextRuleType, Signer};
use stellar_tokens::rwa::claim_issuer::SigningKey;
use stellar_tokens::rwa::compliance::ComplianceHook;
use stellar_tokens::rwa::extensions::doc_manager::Document;
use stellar_tokens::rwa::identity_claims::Claim;
use stellar_tokens::rwa::identity_registry_storage::{CountryData, CountryRelation, IdentityProfile, IdentityType, IndividualCountryRelation};

/// A query the model says must be answered: a failure is a violation of "always answers every query"
/// (signature C20/getter/<registry>/<fn>/failed); the history is abandoned, the shard goes on.
macro_rules! getv {
    ($rep:expr, $reg:expr, $e:expr, $c:expr, $f:expr, $a:expr) => {
        match invoke($e, $c, $f, $a) {
            Ok(v) => v,
            Err(err) => {
                $rep.check("getter", false, &format!("C20/getter/{}/{}/failed", $reg, $f), || format!("{} was refused: {:?} ({})", $f, err, crate::world::last_error()));
                $rep.end_history();
                return;
            }
        }
    };
}

fn as_set<T: Ord + Clone>(v: &[T]) -> (BTreeSet<T>, bool) {
    let s: BTreeSet<T> = v.iter().cloned().collect();
    let nodup = s.len() == v.len();
    (s, nodup)
}

fn fill(limit: usize, len: usize) -> &'static str {
    if len == 0 {
        "empty"
    } else if len + 1 == limit {
        "limit-1"
    } else if len >= limit {
        "limit"
    } else {
        "mid"
    }
}

// =================================================================== 1. context rules
fn context_rules(cfg: &Cfg, rep: &mut Report, h: u64, steps: usize, grow: bool) {
    let mut rng = Rng::for_history(cfg.seed, "C20", cfg.shard, h);
    rep.begin_history(h);
    let w = World::new(100, 16);
    let e = &w.env;
    e.mock_all_auths();
    let ns = if grow { 17 } else { 5 };
    let signers: Vec<Signer> = (0..ns).map(|i| if i % 2 == 0 { Signer::Delegated(w.account()) } else { Signer::External(w.account(), Bytes::from_array(e, &[i as u8; 4])) }).collect();
    let policies: Vec<Address> = (0..6).map(|_| e.register(MockPolicy, ())).collect();
    let t0 = w.account();
    let types: Vec<ContextRuleType> = vec![ContextRuleType::Default, ContextRuleType::CallContract(t0.clone()), ContextRuleType::CallContract(w.account()), ContextRuleType::CreateContract(BytesN::from_array(e, &[7u8; 32]))];
    let init: SVec<Signer> = SVec::from_array(e, [signers[0].clone()]);
    let acct = e.register(MultisigContract, (init, Map::<Address, Val>::new(e)));
    #[derive(Clone, Debug, PartialEq)]
    struct R {
        ty: usize,
        name: String,
        signers: Vec<usize>,
        policies: Vec<usize>,
        vu: Option<u32>,
    }
    let mut rules: BTreeMap<u32, R> = BTreeMap::new();
    rules.insert(0, R { ty: 0, name: "multisig".into(), signers: vec![0], policies: vec![], vu: None });
    let mut next_id: u32 = 1;
    let mut ever_ids: BTreeSet<u32> = [0u32].into_iter().collect();
    let fp = |r: &R| -> (usize, BTreeSet<usize>, BTreeSet<usize>) { (r.ty, r.signers.iter().cloned().collect(), r.policies.iter().cloned().collect()) };
    rep.op("deploy multisig account (rule 0: Default, signer 0)".into());
    // policy 5 is moody: its install / uninstall hooks may fail (bit 0 / bit 1)
    let mut moods: u32 = 0;
    for step in 0..steps {
        // (rarely) far beyond every lifetime extension the library asks for: a registry must not forget
        if rng.chance(1, 40) {
            w.set_ledger(w.ledger() + 600_000);
            rep.count("ledger_jumps");
        }
        if rng.chance(1, 12) {
            moods = rng.below(4) as u32;
            invoke::<()>(e, &policies[5], "set_moods", args!(e, moods)).unwrap();
            rep.op(format!("#{step} policy 5: install {} / uninstall {}", if moods & 1 != 0 { "fails" } else { "works" }, if moods & 2 != 0 { "fails" } else { "works" }));
        }
        let cur = w.ledger();
        let ids: Vec<u32> = rules.keys().cloned().collect();
        let rid = if ids.is_empty() || rng.chance(1, 10) { next_id + rng.below(2) as u32 } else { *rng.pick(&ids) };
        let k = rng.below(100);
        let (desc, want, r): (String, bool, Result<Val, Fail>);
        let mut new_rule: Option<(u32, R)> = None;
        if k < if grow { 45 } else { 30 } {
            let ty = rng.idx(types.len());
            let nsig = if grow { *rng.pick(&[1usize, 2, 14, 15, 16]) } else { rng.idx(4) };
            let mut si: Vec<usize> = (0..ns).collect();
            rng.shuffle(&mut si);
            let mut chosen: Vec<usize> = si.into_iter().take(nsig.min(ns)).collect();
            let dup = !chosen.is_empty() && rng.chance(1, 15);
            if dup {
                chosen.push(chosen[0]);
            }
            let np = if grow { *rng.pick(&[0usize, 1, 5, 6]) } else { rng.idx(3) };
            let mut pi: Vec<usize> = (0..6).collect();
            rng.shuffle(&mut pi);
            let pchosen: Vec<usize> = pi.into_iter().take(np).collect();
            let vu: Option<u32> = *rng.pick(&[None, Some(cur), Some(cur + 5), Some(cur.saturating_sub(1))]);
            let cand = R { ty, name: format!("r{step}"), signers: chosen.clone(), policies: pchosen.clone(), vu };
            let fp_dup = !dup && rules.values().any(|x| fp(x) == fp(&cand));
            // a policy whose install hook fails cannot be attached: the whole addition is refused without trace
            let install_fails = moods & 1 != 0 && pchosen.contains(&5);
            want = rules.len() < 15 && !dup && vu.map_or(true, |v| v >= cur) && chosen.len() <= 15 && pchosen.len() <= 5 && !(chosen.is_empty() && pchosen.is_empty()) && !fp_dup && !install_fails;
            if install_fails {
                rep.count("add_rule_with_failing_install");
            }
            let mut sv: SVec<Signer> = SVec::new(e);
            for i in &chosen {
                sv.push_back(signers[*i].clone());
            }
            let mut pm: Map<Address, Val> = Map::new(e);
            for p in &pchosen {
                pm.set(policies[*p].clone(), Val::VOID.to_val());
            }
            desc = format!("add_context_rule type {ty} signers {chosen:?} policies {pchosen:?} valid_until {vu:?}");
            r = invoke(e, &acct, "add_context_rule", args!(e, types[ty].clone(), SString::from_str(e, &cand.name), vu, sv, pm));
            rep.case(format!("rules/add/fill={}/dup_signer={dup}/fp_dup={fp_dup}/nsig={}/npol={}/{}", fill(15, rules.len()), chosen.len().min(16), pchosen.len(), tag(&r)));
            if r.is_ok() {
                new_rule = Some((next_id, cand));
            }
        } else if k < 45 {
            want = rules.contains_key(&rid);
            desc = format!("remove_context_rule {rid}");
            r = invoke(e, &acct, "remove_context_rule", args!(e, rid));
            // (a failing uninstall hook must not keep a rule or a policy from being removed)
            if moods & 2 != 0 && rules.get(&rid).map_or(false, |x| x.policies.contains(&5)) {
                rep.count("removal_with_failing_uninstall");
            }
            rep.case(format!("rules/remove/present={want}/{}", tag(&r)));
            if r.is_ok() {
                rules.remove(&rid);
            }
        } else if k < 62 {
            let s = rng.idx(ns);
            let ex = rules.get(&rid).cloned();
            want = ex.as_ref().map_or(false, |x| {
                let mut y = x.clone();
                y.signers.push(s);
                !x.signers.contains(&s) && y.signers.len() <= 15 && !rules.iter().any(|(i, o)| *i != rid && fp(o) == fp(&y))
            });
            desc = format!("add_signer rule {rid} signer {s}");
            r = invoke(e, &acct, "add_signer", args!(e, rid, signers[s].clone()));
            rep.case(format!("rules/add_signer/nsig={}/{}", ex.as_ref().map_or(99, |x| x.signers.len()), tag(&r)));
            if r.is_ok() {
                if let Some(x) = rules.get_mut(&rid) {
                    x.signers.push(s);
                }
            }
        } else if k < 74 {
            let ex = rules.get(&rid).cloned();
            let s = ex.as_ref().and_then(|x| if x.signers.is_empty() || rng.chance(1, 6) { None } else { Some(*rng.pick(&x.signers)) }).unwrap_or_else(|| rng.idx(ns));
            want = ex.as_ref().map_or(false, |x| {
                let mut y = x.clone();
                y.signers.retain(|q| *q != s);
                x.signers.contains(&s) && !(y.signers.is_empty() && y.policies.is_empty()) && !rules.iter().any(|(i, o)| *i != rid && fp(o) == fp(&y))
            });
            desc = format!("remove_signer rule {rid} signer {s}");
            r = invoke(e, &acct, "remove_signer", args!(e, rid, signers[s].clone()));
            rep.case(format!("rules/remove_signer/{}", tag(&r)));
            if r.is_ok() {
                if let Some(x) = rules.get_mut(&rid) {
                    x.signers.retain(|q| *q != s);
                }
            }
        } else if k < 84 {
            let p = rng.idx(6);
            let ex = rules.get(&rid).cloned();
            want = ex.as_ref().map_or(false, |x| {
                let mut y = x.clone();
                y.policies.push(p);
                !x.policies.contains(&p) && y.policies.len() <= 5 && !rules.iter().any(|(i, o)| *i != rid && fp(o) == fp(&y)) && !(p == 5 && moods & 1 != 0)
            });
            desc = format!("add_policy rule {rid} policy {p}");
            r = invoke(e, &acct, "add_policy", args!(e, rid, policies[p].clone(), Val::VOID.to_val()));
            rep.case(format!("rules/add_policy/npol={}/{}", ex.as_ref().map_or(99, |x| x.policies.len()), tag(&r)));
            if r.is_ok() {
                if let Some(x) = rules.get_mut(&rid) {
                    x.policies.push(p);
                }
            }
        } else if k < 92 {
            let ex = rules.get(&rid).cloned();
            let p = ex.as_ref().and_then(|x| if x.policies.is_empty() { None } else { Some(*rng.pick(&x.policies)) }).unwrap_or_else(|| rng.idx(6));
            want = ex.as_ref().map_or(false, |x| {
                let mut y = x.clone();
                y.policies.retain(|q| *q != p);
                x.policies.contains(&p) && !(y.signers.is_empty() && y.policies.is_empty()) && !rules.iter().any(|(i, o)| *i != rid && fp(o) == fp(&y))
            });
            desc = format!("remove_policy rule {rid} policy {p}");
            r = invoke(e, &acct, "remove_policy", args!(e, rid, policies[p].clone()));
            rep.case(format!("rules/remove_policy/{}", tag(&r)));
            if r.is_ok() {
                if let Some(x) = rules.get_mut(&rid) {
                    x.policies.retain(|q| *q != p);
                }
            }
        } else if k < 96 {
            let vu: Option<u32> = *rng.pick(&[None, Some(cur), Some(cur + 9), Some(cur.saturating_sub(1))]);
            want = rules.contains_key(&rid) && vu.map_or(true, |v| v >= cur);
            desc = format!("update_context_rule_valid_until {rid} -> {vu:?}");
            r = invoke(e, &acct, "update_context_rule_valid_until", args!(e, rid, vu));
            rep.case(format!("rules/update_valid_until/{}", tag(&r)));
            if r.is_ok() {
                if let Some(x) = rules.get_mut(&rid) {
                    x.vu = vu;
                }
            }
        } else {
            want = rules.contains_key(&rid);
            let nm = format!("n{step}");
            desc = format!("update_context_rule_name {rid} -> {nm}");
            r = invoke(e, &acct, "update_context_rule_name", args!(e, rid, SString::from_str(e, &nm)));
            rep.case(format!("rules/update_name/{}", tag(&r)));
            if r.is_ok() {
                if let Some(x) = rules.get_mut(&rid) {
                    x.name = nm;
                }
            }
        }
        rep.evaluations += 1;
        rep.op(format!("#{step} {desc} -> {}", tag(&r)));
        rep.count(&format!("rules:{}", if r.is_ok() { "ok" } else { "refused" }));
        rep.check("ref", r.is_ok() == want, "C20/ref/context-rules/outcome", || format!("{desc}: expected ok={want}, got {r:?}; rules {rules:?}"));
        if let Some((id, cand)) = new_rule {
            // the id the contract assigned
            let got_id = r.as_ref().ok().and_then(|v| <ContextRule as soroban_sdk::TryFromVal<_, Val>>::try_from_val(e, v).ok()).map(|c| c.id).unwrap_or(u32::MAX);
            rep.check("ids", got_id == id && !ever_ids.contains(&got_id), "C20/ids/context-rules/rule-id-reused-or-unexpected", || format!("new rule got id {got_id}, expected fresh id {id}; ids ever used {ever_ids:?}"));
            ever_ids.insert(got_id);
            rules.insert(got_id, cand);
            next_id = got_id.max(id) + 1;
            if rules.len() == 15 {
                rep.count("rules_at_limit");
            }
        }
        // ---- every getter ----
        let cnt: u32 = getv!(rep, "context-rules", e, &acct, "get_context_rules_count", args!(e));
        rep.check("ref", cnt as usize == rules.len(), "C20/ref/context-rules/count", || format!("count {cnt}, model {}", rules.len()));
        for (ti, t) in types.iter().enumerate() {
            let rs: SVec<ContextRule> = getv!(rep, "context-rules", e, &acct, "get_context_rules", args!(e, t.clone()));
            let got: Vec<u32> = rs.iter().map(|x| x.id).collect();
            let (gs, nodup) = as_set(&got);
            let want_s: BTreeSet<u32> = rules.iter().filter(|(_, x)| x.ty == ti).map(|(i, _)| *i).collect();
            rep.check("ref", gs == want_s && nodup, "C20/ref/context-rules/per-type-list", || format!("type {ti}: listed ids {got:?}, model {want_s:?}"));
        }
        for id in 0..next_id + 2 {
            let g: Result<ContextRule, Fail> = invoke(e, &acct, "get_context_rule", args!(e, id));
            match (g, rules.get(&id)) {
                (Ok(c), Some(m)) => {
                    let gs: Vec<usize> = c.signers.iter().map(|s| signers.iter().position(|x| *x == s).unwrap_or(usize::MAX)).collect();
                    let gp: Vec<usize> = c.policies.iter().map(|p| policies.iter().position(|x| *x == p).unwrap_or(usize::MAX)).collect();
                    // policies given as a Map arrive in key order: compared as a set; signers keep their order
                    let ok = c.context_type == types[m.ty] && c.name == SString::from_str(e, &m.name) && gs == m.signers && as_set(&gp).0 == as_set(&m.policies).0 && gp.len() == m.policies.len() && c.valid_until == m.vu && c.id == id;
                    rep.check("ref", ok, "C20/ref/context-rules/get_context_rule", || format!("rule {id}: contract signers {gs:?} policies {gp:?} valid_until {:?}; model {m:?}", c.valid_until));
                }
                (Err(_), None) => {}
                (g, m) => {
                    rep.violation("C20/ref/context-rules/get_context_rule-existence", format!("rule {id}: contract {:?}, model {m:?}", g.map(|c| c.id)));
                }
            }
        }
        rep.evaluations += (next_id + 7) as u64;
    }
    rep.end_history();
}

// =================================================================== 2. claim topics and trusted issuers
fn cti_registry(cfg: &Cfg, rep: &mut Report, h: u64, steps: usize, grow: bool) {
    let mut rng = Rng::for_history(cfg.seed, "C20", cfg.shard, h);
    rep.begin_history(h);
    let w = World::new(100, 16);
    let e = &w.env;
    e.mock_all_auths();
    let c = e.register(CtiC, ());
    let nt: u32 = if grow { 17 } else { 4 };
    let ni = if grow { 52 } else { 3 };
    let issuers = w.accounts(ni);
    let mut topics: BTreeSet<u32> = BTreeSet::new();
    let mut it: BTreeMap<usize, BTreeSet<u32>> = BTreeMap::new();
    let rep_full = std::cell::Cell::new(0u64);
    for step in 0..steps {
        // (rarely) far beyond every lifetime extension the library asks for: a registry must not forget
        if rng.chance(1, 40) {
            w.set_ledger(w.ledger() + 600_000);
            rep.count("ledger_jumps");
        }
        let t = 1 + rng.below(nt as u64) as u32;
        let i = rng.idx(ni);
        let k = rng.below(100);
        let pick_topics = |rng: &mut Rng, topics: &BTreeSet<u32>| -> Vec<u32> {
            // one time in six every registered topic at once (exactly 15 when the registry is full), and
            // half of those times one more that is not registered
            if rng.chance(1, 6) && !topics.is_empty() {
                let mut v: Vec<u32> = topics.iter().cloned().collect();
                if v.len() == 15 {
                    rep_full.set(rep_full.get() + 1);
                }
                if rng.chance(1, 2) {
                    if let Some(x) = (1..=nt).find(|x| !topics.contains(x)) {
                        v.push(x);
                    }
                }
                return v;
            }
            let mut v: Vec<u32> = vec![];
            for x in 1..=nt {
                if (topics.contains(&x) && rng.chance(1, 2)) || rng.chance(1, 25) {
                    v.push(x);
                }
            }
            if rng.chance(1, 15) && !v.is_empty() {
                v.push(v[0]);
            }
            v
        };
        let (desc, want, r): (String, bool, Result<(), Fail>);
        if k < if grow { 35 } else { 20 } {
            want = topics.len() < 15 && !topics.contains(&t);
            desc = format!("add_claim_topic({t})");
            r = invoke(e, &c, "add_claim_topic", args!(e, t));
            rep.case(format!("cti/add_topic/fill={}/present={}/{}", fill(15, topics.len()), topics.contains(&t), tag(&r)));
            if r.is_ok() {
                topics.insert(t);
            }
        } else if k < if grow { 40 } else { 32 } {
            want = topics.contains(&t);
            desc = format!("remove_claim_topic({t})");
            r = invoke(e, &c, "remove_claim_topic", args!(e, t));
            rep.case(format!("cti/remove_topic/present={want}/{}", tag(&r)));
            if r.is_ok() {
                topics.remove(&t);
                for s in it.values_mut() {
                    s.remove(&t);
                }
            }
        } else if k < 70 {
            let ts = pick_topics(&mut rng, &topics);
            let (tset, nodup) = as_set(&ts);
            want = !ts.is_empty() && ts.len() <= 15 && nodup && tset.iter().all(|x| topics.contains(x)) && it.len() < 50 && !it.contains_key(&i);
            let mut tv: SVec<u32> = SVec::new(e);
            for x in &ts {
                tv.push_back(*x);
            }
            desc = format!("add_trusted_issuer(I{i}, {ts:?})");
            r = invoke(e, &c, "add_trusted_issuer", args!(e, issuers[i], tv));
            rep.case(format!("cti/add_issuer/fill={}/present={}/ntopics={}/{}", fill(50, it.len()), it.contains_key(&i), ts.len().min(3), tag(&r)));
            if r.is_ok() {
                it.insert(i, tset);
            }
        } else if k < 82 {
            want = it.contains_key(&i);
            desc = format!("remove_trusted_issuer(I{i})");
            r = invoke(e, &c, "remove_trusted_issuer", args!(e, issuers[i]));
            rep.case(format!("cti/remove_issuer/present={want}/{}", tag(&r)));
            if r.is_ok() {
                it.remove(&i);
            }
        } else {
            let ts = pick_topics(&mut rng, &topics);
            let (tset, nodup) = as_set(&ts);
            want = !ts.is_empty() && ts.len() <= 15 && nodup && tset.iter().all(|x| topics.contains(x)) && it.contains_key(&i);
            let mut tv: SVec<u32> = SVec::new(e);
            for x in &ts {
                tv.push_back(*x);
            }
            desc = format!("update_issuer_claim_topics(I{i}, {ts:?})");
            r = invoke(e, &c, "update_issuer_claim_topics", args!(e, issuers[i], tv));
            rep.case(format!("cti/update_issuer/present={}/{}", it.contains_key(&i), tag(&r)));
            if r.is_ok() {
                it.insert(i, tset);
            }
        }
        rep.evaluations += 1;
        rep.op(format!("#{step} {desc} -> {}", tag(&r)));
        rep.count(&format!("cti:{}", if r.is_ok() { "ok" } else { "refused" }));
        rep.check("ref", r.is_ok() == want, "C20/ref/claim-topics-and-issuers/outcome", || format!("{desc}: expected ok={want}, got {r:?}; topics {topics:?}, issuers {it:?}"));
        if topics.len() == 15 {
            rep.count("topics_at_limit");
        }
        if it.len() == 50 {
            rep.count("issuers_at_limit");
        }
        // getters, both directions
        let gt: SVec<u32> = getv!(rep, "topics-and-issuers", e, &c, "get_claim_topics", args!(e));
        let gtv: Vec<u32> = gt.iter().collect();
        let (gts, nd) = as_set(&gtv);
        rep.check("ref", gts == topics && nd, "C20/ref/claim-topics-and-issuers/get_claim_topics", || format!("{gtv:?} vs {topics:?}"));
        let gi: SVec<Address> = getv!(rep, "topics-and-issuers", e, &c, "get_trusted_issuers", args!(e));
        let giv: Vec<usize> = gi.iter().map(|a| issuers.iter().position(|x| *x == a).unwrap_or(usize::MAX)).collect();
        let (gis, nd) = as_set(&giv);
        rep.check("ref", gis == it.keys().cloned().collect() && nd, "C20/ref/claim-topics-and-issuers/get_trusted_issuers", || format!("{giv:?} vs {:?}", it.keys()));
        let full = !grow || step % 5 == 0;
        for x in 1..=nt {
            let g: Result<SVec<Address>, Fail> = invoke(e, &c, "get_claim_topic_issuers", args!(e, x));
            let want_is: BTreeSet<usize> = it.iter().filter(|(_, s)| s.contains(&x)).map(|(i, _)| *i).collect();
            match g {
                Ok(v) => {
                    let gv: Vec<usize> = v.iter().map(|a| issuers.iter().position(|y| *y == a).unwrap_or(usize::MAX)).collect();
                    let (gs, nd) = as_set(&gv);
                    rep.check("ref", topics.contains(&x) && gs == want_is && nd, "C20/ref/claim-topics-and-issuers/topic-to-issuers", || format!("topic {x}: issuers {gv:?}, model {want_is:?} (topic exists: {})", topics.contains(&x)));
                }
                Err(_) => {
                    rep.check("ref", !topics.contains(&x), "C20/ref/claim-topics-and-issuers/topic-to-issuers-missing", || format!("topic {x} exists in the model but its issuer list is refused"));
                }
            }
        }
        for ii in 0..ni {
            if !full && !it.contains_key(&ii) && ii > 5 {
                continue;
            }
            let g: Result<SVec<u32>, Fail> = invoke(e, &c, "get_trusted_issuer_claim_topics", args!(e, issuers[ii]));
            match (g, it.get(&ii)) {
                (Ok(v), Some(s)) => {
                    let gv: Vec<u32> = v.iter().collect();
                    let (gs, nd) = as_set(&gv);
                    rep.check("ref", gs == *s && nd, "C20/ref/claim-topics-and-issuers/issuer-to-topics", || format!("issuer {ii}: topics {gv:?}, model {s:?}"));
                }
                (Err(_), None) => {}
                (g, m) => {
                    rep.violation("C20/ref/claim-topics-and-issuers/issuer-existence", format!("issuer {ii}: contract {:?}, model {m:?}", g.map(|v| v.len())));
                }
            }
            let tr: bool = getv!(rep, "topics-and-issuers", e, &c, "is_trusted_issuer", args!(e, issuers[ii]));
            rep.check("ref", tr == it.contains_key(&ii), "C20/ref/claim-topics-and-issuers/is_trusted_issuer", || format!("issuer {ii}: {tr}"));
            let x = 1 + rng.below(nt as u64) as u32;
            let hc: Result<bool, Fail> = invoke(e, &c, "has_claim_topic", args!(e, issuers[ii], x));
            rep.check("ref", hc.unwrap_or(false) == it.get(&ii).map_or(false, |s| s.contains(&x)), "C20/ref/claim-topics-and-issuers/has_claim_topic", || format!("issuer {ii} topic {x}"));
        }
        let m: Map<u32, SVec<Address>> = getv!(rep, "topics-and-issuers", e, &c, "get_claim_topics_and_issuers", args!(e));
        let mk: BTreeSet<u32> = m.keys().iter().collect();
        rep.check("ref", mk == topics, "C20/ref/claim-topics-and-issuers/map-keys", || format!("{mk:?} vs {topics:?}"));
        // ... and the issuer list under every key
        for (x, v) in m.iter() {
            let gv: Vec<usize> = v.iter().map(|a| issuers.iter().position(|y| *y == a).unwrap_or(usize::MAX)).collect();
            let (gs, nd) = as_set(&gv);
            let want_is: BTreeSet<usize> = it.iter().filter(|(_, s)| s.contains(&x)).map(|(i, _)| *i).collect();
            rep.check("ref", gs == want_is && nd, "C20/ref/claim-topics-and-issuers/map-values", || format!("get_claim_topics_and_issuers: topic {x} -> issuers {gv:?}, model {want_is:?}"));
        }
        rep.evaluations += (nt as usize + ni + 3) as u64;
    }
    rep.count_n("issuer_topic_lists_of_exactly_15", rep_full.get());
    rep.end_history();
}

// =================================================================== 3. claim-issuer signing keys
fn issuer_keys(cfg: &Cfg, rep: &mut Report, h: u64, steps: usize, mode: u32) {
    let mut rng = Rng::for_history(cfg.seed, "C20", cfg.shard, h);
    rep.begin_history(h);
    let w = World::new(100, 16);
    let e = &w.env;
    e.mock_all_auths();
    let issuer = e.register(IssuerC, ());
    // two registries in which the issuer is trusted for topics 1..=11 (22 possible (topic, registry) pairs)
    let regs: Vec<Address> = (0..2).map(|_| e.register(CtiC, ())).collect();
    let ntop: u32 = 11;
    for r in &regs {
        let mut tv: SVec<u32> = SVec::new(e);
        for t in 1..=ntop {
            invoke::<()>(e, r, "add_claim_topic", args!(e, t)).unwrap();
            tv.push_back(t);
        }
        invoke::<()>(e, r, "add_trusted_issuer", args!(e, issuer.clone(), tv)).unwrap();
    }
    let nkeys = if mode == 2 { 52 } else { 4 };
    // in the small universe keys 0/1 and 2/3 share their BYTES and differ only in the scheme: a signing
    // key is the pair (bytes, scheme)
    let keys: Vec<(Vec<u8>, u32)> = (0..nkeys).map(|i| { let b = if mode == 0 { i / 2 } else { i }; (vec![b as u8 + 1, 7, 7, (b * 3) as u8], 101 + (i % 3) as u32) }).collect();
    // model: key -> list of (topic, registry)
    let mut pairs: BTreeMap<usize, Vec<(u32, usize)>> = BTreeMap::new();
    let topic_keys = |pairs: &BTreeMap<usize, Vec<(u32, usize)>>, t: u32| -> BTreeSet<usize> { pairs.iter().filter(|(_, v)| v.iter().any(|(x, _)| *x == t)).map(|(k, _)| *k).collect() };
    // topics for which each registry currently trusts the issuer (allow_key asks the registry)
    let mut trusted: Vec<BTreeSet<u32>> = vec![(1..=ntop).collect(), (1..=ntop).collect()];
    for step in 0..steps {
        // (rarely) far beyond every lifetime extension the library asks for: a registry must not forget
        if rng.chance(1, 40) {
            w.set_ledger(w.ledger() + 600_000);
            rep.count("ledger_jumps");
        }
        // a registry changes its mind about the issuer: keys already allowed stay, removal stays possible,
        // new pairs for an untrusted (registry, topic) are refused
        if mode == 0 && rng.chance(1, 10) {
            let ri = rng.idx(2);
            let keep: Vec<u32> = (1..=ntop).filter(|t| *t > 3 || rng.chance(1, 2)).collect();
            let mut tv: SVec<u32> = SVec::new(e);
            for t in &keep {
                tv.push_back(*t);
            }
            let r: Result<(), Fail> = invoke(e, &regs[ri], "update_issuer_claim_topics", args!(e, issuer.clone(), tv));
            rep.op(format!("#{step} registry {ri} now trusts the issuer for topics {keep:?} -> {}", tag(&r)));
            if r.is_ok() {
                trusted[ri] = keep.into_iter().collect();
                rep.count("registry_trust_edits");
            }
        }
        // mode 0: small random; mode 1: drive one key to the 20-registry limit; mode 2: 50 keys per topic
        let (ki, t, ri, add): (usize, u32, usize, bool) = match mode {
            1 => {
                let n = pairs.get(&0).map_or(0, |v| v.len());
                if n < 21 && rng.chance(9, 10) {
                    let all: Vec<(u32, usize)> = (1..=ntop).flat_map(|t| (0..2).map(move |r| (t, r))).collect();
                    let free: Vec<&(u32, usize)> = all.iter().filter(|p| !pairs.get(&0).map_or(false, |v| v.contains(p))).collect();
                    let p = **rng.pick(&free);
                    (0, p.0, p.1, true)
                } else {
                    (0, 1 + rng.below(ntop as u64) as u32, rng.idx(2), rng.chance(1, 2))
                }
            }
            // mostly (key, topic 1, registry 0); the second registry makes an already listed key come back
            // for the same topic - which must stay possible when the topic's key list is full
            2 => (if rng.chance(9, 10) { step % nkeys } else { rng.idx(nkeys) }, 1, if rng.chance(1, 4) { 1 } else { 0 }, rng.chance(19, 20)),
            _ => (rng.idx(nkeys), 1 + rng.below(3) as u32, rng.idx(2), rng.chance(3, 5)),
        };
        let (kb, scheme) = &keys[ki];
        let empty_key = mode == 0 && rng.chance(1, 30);
        let pk = if empty_key { Bytes::new(e) } else { Bytes::from_slice(e, kb) };
        let have = pairs.get(&ki).cloned().unwrap_or_default();
        let (desc, want, r): (String, bool, Result<(), Fail>);
        if add {
            let tk = topic_keys(&pairs, t);
            want = !empty_key && trusted[ri].contains(&t) && !have.contains(&(t, ri)) && have.len() < 20 && (tk.contains(&ki) || tk.len() < 50);
            desc = format!("allow_key(key {ki}, registry {ri}, topic {t})");
            r = invoke(e, &issuer, "allow_key", args!(e, pk, regs[ri].clone(), *scheme, t));
            rep.case(format!("keys/allow/trusted={}/pairs-of-key={}/keys-of-topic={}/dup={}/{}", trusted[ri].contains(&t), fill(20, have.len()), fill(50, tk.len()), have.contains(&(t, ri)), tag(&r)));
            if tk.len() >= 50 && tk.contains(&ki) && !have.contains(&(t, ri)) && have.len() < 20 {
                rep.count("listed_key_paired_again_at_full_topic");
            }
            if r.is_ok() && !empty_key {
                pairs.entry(ki).or_default().push((t, ri));
                if have.len() + 1 == 20 {
                    rep.count("key_reached_20_registries");
                }
            }
        } else {
            want = !empty_key && have.contains(&(t, ri));
            desc = format!("remove_key(key {ki}, registry {ri}, topic {t})");
            r = invoke(e, &issuer, "remove_key", args!(e, pk, regs[ri].clone(), *scheme, t));
            rep.case(format!("keys/remove/present={}/{}", have.contains(&(t, ri)), tag(&r)));
            if r.is_ok() && want {
                let v = pairs.get_mut(&ki).unwrap();
                let pos = v.iter().position(|p| *p == (t, ri)).unwrap();
                v.remove(pos);
                if v.is_empty() {
                    pairs.remove(&ki);
                }
            }
        }
        rep.evaluations += 1;
        rep.op(format!("#{step} {desc} -> {}", tag(&r)));
        rep.count(&format!("keys:{}", if r.is_ok() { "ok" } else { "refused" }));
        let limit_case = add && !empty_key && !have.contains(&(t, ri)) && have.len() == 19;
        let sig = if limit_case { "C20/limit/claim-issuer-keys/registries-per-key-limit-off-by-one" } else { "C20/ref/claim-issuer-keys/outcome" };
        rep.check("ref", r.is_ok() == want, sig, || format!("{desc}: expected ok={want}, got {r:?}; key {ki} currently has {} (topic, registry) pairs, MAX_REGISTRIES_PER_KEY = 20", have.len()));
        // getters, both directions
        for tt in 1..=if mode == 1 { ntop } else { 3 } {
            let g: Result<SVec<SigningKey>, Fail> = invoke(e, &issuer, "keys_for_topic", args!(e, tt));
            let want_k = topic_keys(&pairs, tt);
            let gv: Vec<usize> = g.map(|v| v.iter().map(|s| keys.iter().position(|(b, sc)| Bytes::from_slice(e, b) == s.public_key && *sc == s.scheme).unwrap_or(usize::MAX)).collect()).unwrap_or_default();
            let (gs, nd) = as_set(&gv);
            rep.check("ref", gs == want_k && nd, "C20/ref/claim-issuer-keys/topic-to-keys", || format!("topic {tt}: keys {gv:?}, model {want_k:?}"));
        }
        let probe: Vec<usize> = if nkeys <= 8 { (0..nkeys).collect() } else { vec![ki, (ki + 1) % nkeys, rng.idx(nkeys)] };
        for kk in probe {
            let (b, sc) = &keys[kk];
            let pkb = Bytes::from_slice(e, b);
            let g: Result<SVec<Address>, Fail> = invoke(e, &issuer, "registries", args!(e, SigningKey { public_key: pkb.clone(), scheme: *sc }));
            let mut gv: Vec<usize> = g.map(|v| v.iter().map(|a| regs.iter().position(|x| *x == a).unwrap_or(usize::MAX)).collect()).unwrap_or_default();
            gv.sort();
            let mut wv: Vec<usize> = pairs.get(&kk).map_or(vec![], |v| v.iter().map(|p| p.1).collect());
            wv.sort();
            rep.check("ref", gv == wv, "C20/ref/claim-issuer-keys/key-to-registries", || format!("key {kk}: registries {gv:?}, model {wv:?}"));
            for tt in [t, 1] {
                let a: bool = getv!(rep, "claim-issuer-keys", e, &issuer, "key_allowed_for_topic", args!(e, pkb.clone(), *sc, tt));
                rep.check("ref", a == pairs.get(&kk).map_or(false, |v| v.iter().any(|p| p.0 == tt)), "C20/ref/claim-issuer-keys/key_allowed_for_topic", || format!("key {kk} topic {tt}: {a}"));
            }
            for rr in 0..2 {
                let a: bool = getv!(rep, "claim-issuer-keys", e, &issuer, "key_allowed_for_registry", args!(e, pkb.clone(), *sc, regs[rr].clone()));
                rep.check("ref", a == pairs.get(&kk).map_or(false, |v| v.iter().any(|p| p.1 == rr)), "C20/ref/claim-issuer-keys/key_allowed_for_registry", || format!("key {kk} registry {rr}: {a}"));
            }
        }
        rep.evaluations += 12;
    }
    rep.end_history();
}

// =================================================================== 4. bound tokens
fn token_binder(cfg: &Cfg, rep: &mut Report, h: u64, steps: usize, to_max: bool) {
    let mut rng = Rng::for_history(cfg.seed, "C20", cfg.shard, h);
    rep.begin_history(h);
    let w = World::new(100, 16);
    let e = &w.env;
    e.mock_all_auths();
    let c = e.register(BinderC, ());
    let universe: usize = if to_max { 10_300 } else { 420 };
    if to_max {
        crate::world::set_budget_scale(32);
    }
    let toks: Vec<Address> = (0..universe).map(|_| <Address as soroban_sdk::testutils::Address>::generate(e)).collect();
    let mut bound: Vec<usize> = vec![]; // as a set; order irrelevant
    let mut is_bound = vec![false; universe];
    let mut next_fresh = 0usize;
    // addresses are compared by the host; their XDR form hashes natively (10 000 look-ups per step)
    let sc = |a: &Address| -> soroban_sdk::xdr::ScAddress { a.try_into().unwrap() };
    let idx_of: std::collections::HashMap<soroban_sdk::xdr::ScAddress, usize> = toks.iter().enumerate().map(|(i, a)| (sc(a), i)).collect();
    // The capacity run fills the binder with single binds first. (It used to fill up in batches of 200 and
    // to go on batching at the limit: `bind_tokens` builds a map of everything already bound by ten
    // thousand `set` calls, each of which leaves a copy behind in the host's object table until the
    // environment is dropped - some 800 MB per call at full capacity, and the shard was killed for lack of
    // memory in the last thorough pass. Single binds only scan buckets; batches at the limit are rationed.)
    let mut batches_at_capacity = 0u32;
    if to_max {
        while bound.len() < 9_990 {
            let mut x = next_fresh % universe;
            while is_bound[x] {
                x = (x + 1) % universe;
            }
            next_fresh += 1;
            let r: Result<(), Fail> = invoke(e, &c, "bind_token", args!(e, toks[x].clone()));
            rep.evaluations += 1;
            rep.check("ref", r.is_ok(), "C20/ref/token-binder/outcome", || format!("bind_token(T{x}) while filling up, count {}: {r:?}", bound.len()));
            if r.is_err() {
                break;
            }
            bound.push(x);
            is_bound[x] = true;
            if bound.len() % 2500 == 0 {
                let last: Result<Address, Fail> = invoke(e, &c, "get_token_by_index", args!(e, bound.len() as u32 - 1));
                let beyond: Result<Address, Fail> = invoke(e, &c, "get_token_by_index", args!(e, bound.len() as u32));
                rep.check("ref", last.is_ok() && beyond.is_err(), "C20/ref/token-binder/get_token_by_index", || format!("while filling up, {} bound: index len-1 -> {}, index len -> {}", bound.len(), tag(&last), tag(&beyond)));
            }
        }
        rep.op(format!("filled up to {} with single binds", bound.len()));
    }
    for step in 0..steps {
        // (rarely) far beyond every lifetime extension the library asks for: a registry must not forget
        if rng.chance(1, 40) {
            w.set_ledger(w.ledger() + 600_000);
            rep.count("ledger_jumps");
        }
        let mut k = rng.below(100);
        // the capacity run stays near the limit
        let far_from_limit = to_max && bound.len() + 200 < 10_000;
        if far_from_limit && rng.chance(9, 10) {
            k = 30;
        }
        if to_max && (20..55).contains(&k) {
            if batches_at_capacity >= 12 {
                k = 10; // a single bind instead
            } else {
                batches_at_capacity += 1;
            }
        }
        let (desc, want, r): (String, bool, Result<(), Fail>);
        if k < 20 {
            let t = if rng.chance(1, 6) && !bound.is_empty() {
                *rng.pick(&bound)
            } else if to_max {
                let mut x = next_fresh % universe;
                while is_bound[x] {
                    x = (x + 1) % universe;
                }
                next_fresh += 1;
                x
            } else {
                let x = next_fresh % universe;
                next_fresh += 1;
                x
            };
            if bound.len() == 10_000 && !is_bound[t] {
                rep.count("single_bind_at_capacity");
            }
            want = !is_bound[t] && bound.len() < 10_000;
            desc = format!("bind_token(T{t})");
            r = invoke(e, &c, "bind_token", args!(e, toks[t].clone()));
            rep.case(format!("binder/bind/bound={}/count%100={}/{}", is_bound[t], match bound.len() % 100 { 0 => "0", 99 => "99", _ => "mid" }, tag(&r)));
            if r.is_ok() {
                bound.push(t);
                is_bound[t] = true;
            }
        } else if k < 55 {
            let mut n = *rng.pick(&[0usize, 1, 2, 50, 99, 100, 101, 150, 200, 201]);
            // close to the capacity: a batch that fills the binder exactly, or goes one past
            let room = 10_000usize.saturating_sub(bound.len());
            if far_from_limit {
                n = *rng.pick(&[200usize, 200, 199, 150, 101]);
            }
            let mut exact = false;
            if to_max && room <= 199 {
                // the rationed batches at the limit alternate: exactly the room left / one more than that
                n = if batches_at_capacity % 2 == 1 && room >= 1 { room } else { room + 1 };
                exact = true;
            }
            let mut batch: Vec<usize> = if to_max {
                // most of the universe ends up bound: take tokens that are not
                let mut v = vec![];
                let mut t = next_fresh % universe;
                while v.len() < n {
                    if !is_bound[t] {
                        v.push(t);
                    }
                    t = (t + 1) % universe;
                }
                v
            } else {
                (0..n).map(|j| (next_fresh + j) % universe).collect()
            };
            next_fresh += n;
            let dup = rng.chance(1, 12) && n >= 2 && !exact;
            if dup {
                batch[n - 1] = batch[0];
            }
            let clash = rng.chance(1, 12) && !bound.is_empty() && !exact && n >= 1;
            if clash {
                batch[n / 2] = *rng.pick(&bound);
            }
            let (bs, nd) = as_set(&batch);
            if to_max && !dup && !clash && room <= 200 && bs.iter().all(|t| !is_bound[*t]) {
                if n == room {
                    rep.count("batch_fills_binder_exactly");
                } else if n == room + 1 {
                    rep.count("batch_one_past_capacity");
                }
            }
            want = n <= 200 && bound.len() + n <= 10_000 && nd && bs.iter().all(|t| !is_bound[*t]);
            let mut tv: SVec<Address> = SVec::new(e);
            for t in &batch {
                tv.push_back(toks[*t].clone());
            }
            desc = format!("bind_tokens({n} tokens, dup {dup}, clash {clash}) at count {}", bound.len());
            r = invoke(e, &c, "bind_tokens", args!(e, tv));
            rep.case(format!("binder/bind_tokens/n={n}/crosses-bucket={}/dup={}/clash={clash}/{}", bound.len() / 100 != (bound.len() + n) / 100, !nd, tag(&r)));
            if r.is_ok() {
                for t in batch {
                    bound.push(t);
                    is_bound[t] = true;
                }
            }
        } else {
            let t = if bound.is_empty() || rng.chance(1, 8) { rng.idx(universe) } else {
                // first, last, bucket edges, anything
                let idxs = [0usize, bound.len() - 1, (bound.len() - 1) / 100 * 100, rng.idx(bound.len()), rng.idx(bound.len())];
                bound[*rng.pick(&idxs).min(&(bound.len() - 1))]
            };
            want = is_bound[t];
            desc = format!("unbind_token(T{t})");
            r = invoke(e, &c, "unbind_token", args!(e, toks[t].clone()));
            rep.case(format!("binder/unbind/bound={want}/count%100={}/{}", match bound.len() % 100 { 0 => "0", 1 => "1", _ => "mid" }, tag(&r)));
            if r.is_ok() && want {
                let pos = bound.iter().position(|x| *x == t).unwrap();
                bound.swap_remove(pos);
                is_bound[t] = false;
            }
        }
        rep.evaluations += 1;
        rep.op(format!("#{step} {desc} -> {}", tag(&r)));
        rep.count(&format!("binder:{}", if r.is_ok() { "ok" } else { "refused" }));
        rep.check("ref", r.is_ok() == want, "C20/ref/token-binder/outcome", || format!("{desc}: expected ok={want}, got {r:?}; bound count {}", bound.len()));
        if bound.len() == 10_000 {
            rep.count("binder_at_max");
        }
        // getters
        let lt: SVec<Address> = getv!(rep, "token-binder", e, &c, "linked_tokens", args!(e));
        let lv: Vec<usize> = lt.iter().map(|a| *idx_of.get(&sc(&a)).unwrap_or(&usize::MAX)).collect();
        let (ls, nd) = as_set(&lv);
        let ws: BTreeSet<usize> = bound.iter().cloned().collect();
        rep.check("ref", ls == ws && nd, "C20/ref/token-binder/linked_tokens", || format!("linked_tokens has {} entries ({} distinct), model {}", lv.len(), ls.len(), ws.len()));
        let cnt = bound.len() as u32;
        let probes: Vec<u32> = if cnt <= 64 { (0..cnt).collect() } else { let mut v = vec![0, cnt - 1, cnt / 2, (cnt - 1) / 100 * 100, 99.min(cnt - 1), 100.min(cnt - 1)]; v.extend((0..6).map(|_| rng.below(cnt as u64) as u32)); v };
        let mut seen: BTreeSet<usize> = BTreeSet::new();
        for i in probes.iter() {
            match invoke::<Address>(e, &c, "get_token_by_index", args!(e, *i)) {
                Ok(a) => {
                    let t = *idx_of.get(&sc(&a)).unwrap_or(&usize::MAX);
                    rep.check("ref", t < universe && is_bound[t], "C20/ref/token-binder/get_token_by_index", || format!("index {i} -> token {t}, which is not bound"));
                    if cnt <= 64 {
                        rep.check("ref", seen.insert(t), "C20/ref/token-binder/index-enumerates-twice", || format!("token {t} at two indices"));
                    }
                    let back: Result<u32, Fail> = invoke(e, &c, "get_token_index", args!(e, a));
                    rep.check("ref", back == Ok(*i), "C20/ref/token-binder/get_token_index", || format!("token at index {i} reports index {back:?}"));
                }
                Err(f) => {
                    rep.violation("C20/ref/token-binder/index-below-count-refused", format!("get_token_by_index({i}) with count {cnt}: {f:?}"));
                }
            }
        }
        let beyond = invoke::<Address>(e, &c, "get_token_by_index", args!(e, cnt));
        rep.check("ref", beyond.is_err(), "C20/ref/token-binder/index-count-answered", || format!("get_token_by_index({cnt}) answered"));
        for _ in 0..4 {
            let t = rng.idx(universe);
            let b: bool = getv!(rep, "token-binder", e, &c, "is_token_bound", args!(e, toks[t].clone()));
            rep.check("ref", b == is_bound[t], "C20/ref/token-binder/is_token_bound", || format!("token {t}: {b}, model {}", is_bound[t]));
        }
        rep.evaluations += probes.len() as u64 + 6;
    }
    crate::world::set_budget_scale(1);
    rep.end_history();
}

// =================================================================== 5. documents
fn documents(cfg: &Cfg, rep: &mut Report, h: u64, steps: usize, to_max: bool) {
    let mut rng = Rng::for_history(cfg.seed, "C20", cfg.shard, h);
    rep.begin_history(h);
    let w = World::new(100, 16);
    let e = &w.env;
    e.mock_all_auths();
    let c = e.register(DocsC, ());
    let universe: usize = if to_max { 5_100 } else { 180 };
    let name = |i: usize| -> [u8; 32] {
        let mut b = [0u8; 32];
        b[..8].copy_from_slice(&(i as u64 + 1).to_be_bytes());
        b
    };
    let mut docs: BTreeMap<usize, (String, [u8; 32], u64)> = BTreeMap::new();
    let mut fresh = 0usize;
    for step in 0..steps {
        // (rarely) far beyond every lifetime extension the library asks for: a registry must not forget
        if rng.chance(1, 40) {
            w.set_ledger(w.ledger() + 600_000);
            rep.count("ledger_jumps");
        }
        if rng.chance(1, 20) {
            w.set_time(1_700_000_000 + step as u64 * 10);
        }
        let ts = e.ledger().timestamp();
        let mut k = rng.below(100);
        let grow = to_max || docs.len() < 60;
        // the capacity run fills up first (new names, valid content) and then stays within a few entries
        // of the limit, where updates of stored names, new names and removals alternate
        let far_from_limit = to_max && docs.len() + 6 < 5000;
        let at_limit_play = to_max && !far_from_limit;
        if at_limit_play {
            k = if rng.chance(2, 3) { 0 } else { 99 };
        }
        let bulk = (!to_max && step < 58) || (far_from_limit && rng.chance(49, 50)); // reach the second bucket early, then churn
        let (desc, want, r): (String, bool, Result<(), Fail>);
        if bulk || k < if grow { 75 } else { 45 } {
            let update_stored = !bulk && !docs.is_empty() && rng.chance(if at_limit_play { 1 } else { 1 }, if at_limit_play { 2 } else { 5 });
            let i = if update_stored {
                *docs.keys().nth(rng.idx(docs.len())).unwrap()
            } else if to_max {
                let mut x = fresh % universe;
                while docs.contains_key(&x) {
                    x = (x + 1) % universe;
                }
                fresh += 1;
                x
            } else {
                let x = fresh % universe;
                fresh += 1;
                x
            };
            if docs.len() == 5000 {
                rep.count(if docs.contains_key(&i) { "stored_document_updated_at_capacity" } else { "new_document_offered_at_capacity" });
            }
            let ulen = if bulk { 5 } else { *rng.pick(&[0usize, 5, 199, 200, 201]) };
            let uri: String = "u".repeat(ulen);
            let hsh: [u8; 32] = rng.bytes();
            want = ulen <= 200 && (docs.contains_key(&i) || docs.len() < 5000);
            desc = format!("set_document(D{i}, uri of {ulen} bytes) at count {}", docs.len());
            r = invoke(e, &c, "set_document", args!(e, BytesN::from_array(e, &name(i)), SString::from_str(e, &uri), BytesN::from_array(e, &hsh)));
            rep.case(format!("docs/set/existing={}/uri={ulen}/count%50={}/{}", docs.contains_key(&i), match docs.len() % 50 { 0 => "0", 49 => "49", _ => "mid" }, tag(&r)));
            if r.is_ok() {
                docs.insert(i, (uri, hsh, ts));
            }
        } else {
            let i = if docs.is_empty() || rng.chance(1, 8) { rng.idx(universe) } else { *docs.keys().nth(rng.idx(docs.len())).unwrap() };
            want = docs.contains_key(&i);
            desc = format!("remove_document(D{i})");
            r = invoke(e, &c, "remove_document", args!(e, BytesN::from_array(e, &name(i))));
            rep.case(format!("docs/remove/present={want}/count%50={}/{}", match docs.len() % 50 { 0 => "0", 1 => "1", _ => "mid" }, tag(&r)));
            if r.is_ok() {
                docs.remove(&i);
            }
        }
        rep.evaluations += 1;
        rep.op(format!("#{step} {desc} -> {}", tag(&r)));
        rep.count(&format!("docs:{}", if r.is_ok() { "ok" } else { "refused" }));
        rep.check("ref", r.is_ok() == want, "C20/ref/documents/outcome", || format!("{desc}: expected ok={want}, got {r:?}"));
        if docs.len() == 5000 {
            rep.count("docs_at_max");
        }
        let cnt: u32 = getv!(rep, "documents", e, &c, "get_document_count", args!(e));
        rep.check("ref", cnt as usize == docs.len(), "C20/ref/documents/count", || format!("count {cnt}, model {}", docs.len()));
        let by_name: BTreeMap<[u8; 32], usize> = docs.keys().map(|i| (name(*i), *i)).collect();
        let check_doc = |rep: &mut Report, nm: &BytesN<32>, d: &Document, how: &str| {
            match by_name.get(&nm.to_array()) {
                Some(i) => {
                    let m = &docs[i];
                    let ok = d.uri == SString::from_str(e, &m.0) && d.document_hash.to_array() == m.1 && d.timestamp == m.2;
                    rep.check("ref", ok, "C20/ref/documents/content", || format!("document D{i} via {how}: timestamp {} (model {}), uri/hash equal: {}", d.timestamp, m.2, d.uri == SString::from_str(e, &m.0)));
                }
                None => {
                    rep.violation("C20/ref/documents/unknown-document-listed", format!("{how} returned a document that the model does not hold"));
                }
            }
        };
        // full enumeration while small, sampled beyond; every bucket listing in small histories
        let probes: Vec<u32> = if cnt <= 120 { (0..cnt).collect() } else { let mut v = vec![0, cnt - 1, (cnt - 1) / 50 * 50, 49, 50]; v.extend((0..6).map(|_| rng.below(cnt as u64) as u32)); v };
        let mut seen: BTreeSet<[u8; 32]> = BTreeSet::new();
        for i in probes.iter() {
            match invoke::<(BytesN<32>, Document)>(e, &c, "get_document_by_index", args!(e, *i)) {
                Ok((nm, d)) => {
                    check_doc(rep, &nm, &d, "index");
                    if cnt <= 120 {
                        rep.check("ref", seen.insert(nm.to_array()), "C20/ref/documents/index-enumerates-twice", || format!("index {i} repeats a document"));
                    }
                    let g: Result<Document, Fail> = invoke(e, &c, "get_document", args!(e, nm.clone()));
                    rep.check("ref", g.as_ref().ok() == Some(&d), "C20/ref/documents/get_document-vs-index", || format!("get_document of the name at index {i} differs"));
                }
                Err(f) => {
                    rep.violation("C20/ref/documents/index-below-count-refused", format!("get_document_by_index({i}) with count {cnt}: {f:?}"));
                }
            }
        }
        if cnt <= 120 {
            rep.check("ref", seen.len() == docs.len(), "C20/ref/documents/enumeration-incomplete", || format!("enumerated {} distinct documents, model {}", seen.len(), docs.len()));
            let mut total = 0u32;
            for b in 0..4u32 {
                let v: SVec<(BytesN<32>, Document)> = getv!(rep, "documents", e, &c, "get_documents", args!(e, b));
                total += v.len();
                for (nm, d) in v.iter() {
                    check_doc(rep, &nm, &d, "bucket listing");
                }
            }
            rep.check("ref", total == cnt, "C20/ref/documents/bucket-listing", || format!("buckets hold {total} documents, count {cnt}"));
        }
        let beyond = invoke::<(BytesN<32>, Document)>(e, &c, "get_document_by_index", args!(e, cnt));
        rep.check("ref", beyond.is_err(), "C20/ref/documents/index-count-answered", || format!("get_document_by_index({cnt}) answered"));
        for _ in 0..3 {
            let i = rng.idx(universe);
            let g: Result<Document, Fail> = invoke(e, &c, "get_document", args!(e, BytesN::from_array(e, &name(i))));
            rep.check("ref", g.is_ok() == docs.contains_key(&i), "C20/ref/documents/get_document-existence", || format!("D{i}: {:?} vs model {}", g.is_ok(), docs.contains_key(&i)));
        }
        rep.evaluations += probes.len() as u64 + 6;
    }
    rep.end_history();
}

// =================================================================== 6. identities, profiles, recovery links
fn identities(cfg: &Cfg, rep: &mut Report, h: u64, steps: usize) {
    let mut rng = Rng::for_history(cfg.seed, "C20", cfg.shard, h);
    rep.begin_history(h);
    let w = World::new(100, 16);
    let e = &w.env;
    e.mock_all_auths();
    let c = e.register(IrsC, ());
    let na = 6;
    let accounts = w.accounts(na);
    let ids = w.accounts(4);
    // the metadata of an entry is a function of its code (code % 8), so that the model keeps codes only and
    // every getter can still be compared on the whole entry: 0-2 none, 3 an empty map, 4 one short value,
    // 5 as many values as allowed, each as long as allowed, 6 one value more than allowed, 7 one value one
    // character too long. Shapes 6 and 7 are refused by every call that carries them.
    use stellar_tokens::rwa::identity_registry_storage::{MAX_METADATA_ENTRIES, MAX_METADATA_STRING_LEN};
    let cd = |code: u32| {
        let long = |n: u32| SString::from_str(e, &"m".repeat(n as usize));
        let metadata: Option<soroban_sdk::Map<Symbol, SString>> = match code % 8 {
            0..=2 => None,
            3 => Some(soroban_sdk::Map::new(e)),
            4 => {
                let mut m = soroban_sdk::Map::new(e);
                m.set(Symbol::new(e, "visa"), SString::from_str(e, "x"));
                Some(m)
            }
            5 | 6 => {
                let mut m = soroban_sdk::Map::new(e);
                for i in 0..MAX_METADATA_ENTRIES + (code % 8 - 5) {
                    m.set(Symbol::new(e, &format!("k{i}")), long(MAX_METADATA_STRING_LEN));
                }
                Some(m)
            }
            _ => {
                let mut m = soroban_sdk::Map::new(e);
                m.set(Symbol::new(e, "visa"), long(MAX_METADATA_STRING_LEN + 1));
                Some(m)
            }
        };
        CountryData { country: CountryRelation::Individual(IndividualCountryRelation::Residence(code)), metadata }
    };
    let valid_code = |code: u32| code % 8 < 6;
    // n codes, all distinct; one call in eight carries exactly one entry with metadata beyond the limits
    let mk_codes = |rng: &mut Rng, n: usize, serial: u32| -> Vec<u32> {
        let mut v: Vec<u32> = (0..n).map(|j| (serial * 16 + j as u32) * 8 + *rng.pick(&[0u32, 1, 2, 2, 3, 4, 5])).collect();
        if n > 0 && rng.chance(1, 8) {
            let any = rng.idx(n);
            let j = *rng.pick(&[0usize, n - 1, any]);
            v[j] = v[j] / 8 * 8 + 6 + rng.below(2) as u32;
        }
        v
    };
    let mut ident: BTreeMap<usize, (usize, Vec<u32>)> = BTreeMap::new(); // account -> (identity, country codes)
    let mut recovered: BTreeMap<usize, usize> = BTreeMap::new();
    for step in 0..steps {
        // (rarely) far beyond every lifetime extension the library asks for: a registry must not forget
        if rng.chance(1, 40) {
            w.set_ledger(w.ledger() + 600_000);
            rep.count("ledger_jumps");
        }
        let a = rng.idx(na);
        let b = rng.idx(na);
        let k = rng.below(100);
        let (desc, want, r): (String, bool, Result<(), Fail>);
        if k < 25 {
            let n = *rng.pick(&[0usize, 1, 2, 14, 15, 16]);
            let codes: Vec<u32> = mk_codes(&mut rng, n, step as u32);
            let mut v: SVec<CountryData> = SVec::new(e);
            for x in &codes {
                v.push_back(cd(*x));
            }
            let idn = rng.idx(4);
            let meta_ok = codes.iter().all(|c| valid_code(*c));
            if !meta_ok {
                rep.count("metadata_beyond_limits_offered");
            }
            want = !recovered.contains_key(&a) && n >= 1 && n <= 15 && !ident.contains_key(&a) && meta_ok;
            desc = format!("add_identity(A{a}, ID{idn}, {n} countries)");
            r = invoke(e, &c, "add_identity", args!(e, accounts[a], ids[idn], IdentityType::Individual, v));
            rep.case(format!("irs/add/present={}/recovered={}/countries={n}/{}", ident.contains_key(&a), recovered.contains_key(&a), tag(&r)));
            if r.is_ok() {
                ident.insert(a, (idn, codes));
            }
        } else if k < 33 {
            let idn = rng.idx(4);
            want = ident.contains_key(&a);
            desc = format!("modify_identity(A{a}, ID{idn})");
            r = invoke(e, &c, "modify_identity", args!(e, accounts[a], ids[idn]));
            rep.case(format!("irs/modify/present={want}/{}", tag(&r)));
            if r.is_ok() && want {
                ident.get_mut(&a).unwrap().0 = idn;
            }
        } else if k < 43 {
            want = ident.contains_key(&a);
            desc = format!("remove_identity(A{a})");
            r = invoke(e, &c, "remove_identity", args!(e, accounts[a]));
            rep.case(format!("irs/remove/present={want}/{}", tag(&r)));
            if r.is_ok() {
                ident.remove(&a);
            }
        } else if k < 58 {
            want = !recovered.contains_key(&b) && ident.contains_key(&a) && !ident.contains_key(&b);
            desc = format!("recover_identity(A{a} -> A{b})");
            r = invoke(e, &c, "recover_identity", args!(e, accounts[a], accounts[b]));
            rep.case(format!("irs/recover/old_present={}/new_present={}/new_recovered={}/self={}/{}", ident.contains_key(&a), ident.contains_key(&b), recovered.contains_key(&b), a == b, tag(&r)));
            if r.is_ok() && want {
                let x = ident.remove(&a).unwrap();
                ident.insert(b, x);
                recovered.insert(a, b);
            }
        } else if k < 75 {
            let n = *rng.pick(&[0usize, 1, 2, 13, 14]);
            let codes: Vec<u32> = mk_codes(&mut rng, n, 100_000 + step as u32);
            let mut v: SVec<CountryData> = SVec::new(e);
            for x in &codes {
                v.push_back(cd(*x));
            }
            let have = ident.get(&a).map_or(0, |x| x.1.len());
            let meta_ok = codes.iter().all(|c| valid_code(*c));
            if !meta_ok {
                rep.count("metadata_beyond_limits_offered");
            }
            want = n >= 1 && ident.contains_key(&a) && have + n <= 15 && meta_ok;
            desc = format!("add_country_data_entries(A{a}, {n}) having {have}");
            r = invoke(e, &c, "add_country_data_entries", args!(e, accounts[a], v));
            rep.case(format!("irs/add_countries/fill={}/n={n}/{}", fill(15, have), tag(&r)));
            if r.is_ok() && want {
                ident.get_mut(&a).unwrap().1.extend(codes);
            }
        } else if k < 87 {
            let have = ident.get(&a).map_or(0, |x| x.1.len());
            let idx = *rng.pick(&[0u32, have.saturating_sub(1) as u32, have as u32, 3]);
            let code = mk_codes(&mut rng, 1, 200_000 + step as u32)[0];
            if !valid_code(code) {
                rep.count("metadata_beyond_limits_offered");
            }
            want = ident.contains_key(&a) && (idx as usize) < have && valid_code(code);
            desc = format!("modify_country_data(A{a}, {idx}, code {code}) having {have}");
            r = invoke(e, &c, "modify_country_data", args!(e, accounts[a], idx, cd(code)));
            rep.case(format!("irs/modify_country/in-range={}/metadata-shape={}/{}", (idx as usize) < have, code % 8, tag(&r)));
            if r.is_ok() && want {
                ident.get_mut(&a).unwrap().1[idx as usize] = code;
            }
        } else {
            let have = ident.get(&a).map_or(0, |x| x.1.len());
            let idx = *rng.pick(&[0u32, have.saturating_sub(1) as u32, have as u32]);
            want = ident.contains_key(&a) && have > 1 && (idx as usize) < have;
            desc = format!("delete_country_data(A{a}, {idx}) having {have}");
            r = invoke(e, &c, "delete_country_data", args!(e, accounts[a], idx));
            rep.case(format!("irs/delete_country/have={}/in-range={}/{}", have.min(2), (idx as usize) < have, tag(&r)));
            if r.is_ok() && want {
                ident.get_mut(&a).unwrap().1.remove(idx as usize);
            }
        }
        rep.evaluations += 1;
        rep.op(format!("#{step} {desc} -> {}", tag(&r)));
        rep.count(&format!("irs:{}", if r.is_ok() { "ok" } else { "refused" }));
        if r.is_ok() && desc.starts_with("add_identity") {
            rep.check("ref", !recovered.contains_key(&a), "C20/ref/identities/recovered-account-registered-again", || format!("{desc} succeeded although A{a} was recovered to {:?}", recovered.get(&a)));
        }
        rep.check("ref", r.is_ok() == want, "C20/ref/identities/outcome", || format!("{desc}: expected ok={want}, got {r:?}; identities {ident:?}, recovery links {recovered:?}"));
        for x in 0..na {
            let g: Result<Address, Fail> = invoke(e, &c, "stored_identity", args!(e, accounts[x]));
            let gi = g.ok().map(|a| ids.iter().position(|y| *y == a).unwrap_or(usize::MAX));
            rep.check("ref", gi == ident.get(&x).map(|v| v.0), "C20/ref/identities/stored_identity", || format!("A{x}: {gi:?} vs {:?}", ident.get(&x).map(|v| v.0)));
            let p: Result<IdentityProfile, Fail> = invoke(e, &c, "get_identity_profile", args!(e, accounts[x]));
            let codes: Option<Vec<u32>> = p.ok().map(|p| p.countries.iter().map(|c| match c.country { CountryRelation::Individual(IndividualCountryRelation::Residence(v)) => v, _ => u32::MAX }).collect());
            rep.check("ref", codes == ident.get(&x).map(|v| v.1.clone()), "C20/ref/identities/profile", || format!("A{x}: countries {codes:?} vs {:?}", ident.get(&x).map(|v| &v.1)));
            // the list getter and every index answer the same sequence
            let ge: Result<SVec<CountryData>, Fail> = invoke(e, &c, "get_country_data_entries", args!(e, accounts[x]));
            if let (Ok(v), Some(m)) = (&ge, ident.get(&x)) {
                let same = v.len() as usize == m.1.len() && v.iter().zip(m.1.iter()).all(|(c, code)| c == cd(*code));
                let same_countries = v.len() as usize == m.1.len() && v.iter().zip(m.1.iter()).all(|(c, code)| c.country == cd(*code).country);
                rep.check("ref", same || !same_countries, "C20/ref/identities/country-metadata-differs-from-what-was-stored", || format!("A{x}: get_country_data_entries has the right countries {:?} but not the metadata stored with them", m.1));
            }
            let gcodes: Option<Vec<u32>> = ge.ok().map(|v| v.iter().map(|c| match c.country { CountryRelation::Individual(IndividualCountryRelation::Residence(v)) => v, _ => u32::MAX }).collect());
            // (an account without identity has no entries: an empty list and a refusal both say so)
            rep.check("ref", gcodes.clone().unwrap_or_default() == ident.get(&x).map(|v| v.1.clone()).unwrap_or_default(), "C20/ref/identities/country-data-entries", || format!("A{x}: get_country_data_entries {gcodes:?} vs {:?}", ident.get(&x).map(|v| &v.1)));
            if let Some(v) = ident.get(&x) {
                for (j, code) in v.1.iter().enumerate() {
                    let g: Result<CountryData, Fail> = invoke(e, &c, "get_country_data", args!(e, accounts[x], j as u32));
                    let whole = g.as_ref().ok().map_or(false, |c| *c == cd(*code));
                    let gc = g.ok().map(|c| match c.country { CountryRelation::Individual(IndividualCountryRelation::Residence(v)) => v, _ => u32::MAX });
                    rep.check("ref", gc == Some(*code), "C20/ref/identities/country-data-by-index", || format!("A{x}: get_country_data({j}) = {gc:?}, model {code}"));
                    rep.check("ref", whole || gc != Some(*code), "C20/ref/identities/country-metadata-differs-from-what-was-stored", || format!("A{x}: get_country_data({j}) has the right country {code} but not the metadata stored with it (shape {})", code % 8));
                }
            }
            let have = ident.get(&x).map_or(0, |v| v.1.len()) as u32;
            let at: Result<CountryData, Fail> = invoke(e, &c, "get_country_data", args!(e, accounts[x], have));
            rep.check("ref", at.is_err(), "C20/ref/identities/country-index-len-answered", || format!("A{x}: get_country_data({have}) answered"));
            let rt: Option<Address> = getv!(rep, "identities", e, &c, "get_recovered_to", args!(e, accounts[x]));
            let ri = rt.map(|a| accounts.iter().position(|y| *y == a).unwrap_or(usize::MAX));
            rep.check("ref", ri == recovered.get(&x).cloned(), "C20/ref/identities/recovery-link", || format!("A{x}: recovered to {ri:?}, model {:?}", recovered.get(&x)));
        }
        rep.evaluations += 4 * na as u64;
    }
    rep.end_history();
}

// =================================================================== 7. claims of an identity
fn claims(cfg: &Cfg, rep: &mut Report, h: u64, steps: usize) {
    let mut rng = Rng::for_history(cfg.seed, "C20", cfg.shard, h);
    rep.begin_history(h);
    let w = World::new(100, 16);
    let e = &w.env;
    e.mock_all_auths();
    let c = e.register(IdentityC, ());
    let issuers: Vec<Address> = (0..3).map(|_| e.register(YesIssuer, ())).collect();
    let cid = |i: usize, t: u32| -> [u8; 32] {
        let mut d: Vec<u8> = vec![];
        for b in issuers[i].clone().to_xdr(e).iter() {
            d.push(b);
        }
        d.extend_from_slice(&t.to_be_bytes());
        sha3::Keccak256::digest(&d).into()
    };
    let mut held: BTreeMap<(usize, u32), Vec<u8>> = BTreeMap::new();
    for step in 0..steps {
        // (rarely) far beyond every lifetime extension the library asks for: a registry must not forget
        if rng.chance(1, 40) {
            w.set_ledger(w.ledger() + 600_000);
            rep.count("ledger_jumps");
        }
        let i = rng.idx(3);
        let t = 1 + rng.below(3) as u32;
        let (desc, want, r): (String, bool, Result<Val, Fail>);
        if rng.chance(3, 5) {
            let data: Vec<u8> = rng.bytes::<6>().to_vec();
            want = true;
            desc = format!("add_claim(issuer {i}, topic {t})");
            r = invoke(e, &c, "add_claim", args!(e, t, 101u32, issuers[i].clone(), Bytes::from_slice(e, b"s"), Bytes::from_slice(e, &data), SString::from_str(e, "u")));
            rep.case(format!("claims/add/existing={}/{}", held.contains_key(&(i, t)), tag(&r)));
            if let Ok(v) = &r {
                let id: BytesN<32> = <BytesN<32> as soroban_sdk::TryFromVal<_, Val>>::try_from_val(e, v).unwrap();
                rep.check("ids", id.to_array() == cid(i, t), "C20/ids/claims/claim-id", || "claim id differs from keccak(issuer xdr || topic)".to_string());
                held.insert((i, t), data);
            }
        } else {
            want = held.contains_key(&(i, t));
            desc = format!("remove_claim(issuer {i}, topic {t})");
            r = invoke(e, &c, "remove_claim", args!(e, BytesN::from_array(e, &cid(i, t))));
            rep.case(format!("claims/remove/present={want}/{}", tag(&r)));
            if r.is_ok() {
                held.remove(&(i, t));
            }
        }
        rep.evaluations += 1;
        rep.op(format!("#{step} {desc} -> {}", tag(&r)));
        rep.count(&format!("claims:{}", if r.is_ok() { "ok" } else { "refused" }));
        rep.check("ref", r.is_ok() == want, "C20/ref/claims/outcome", || format!("{desc}: expected ok={want}, got {r:?}"));
        for tt in 1..=3u32 {
            let v: SVec<BytesN<32>> = getv!(rep, "claims", e, &c, "get_claim_ids_by_topic", args!(e, tt));
            let gv: Vec<[u8; 32]> = v.iter().map(|b| b.to_array()).collect();
            let (gs, nd) = as_set(&gv);
            let ws: BTreeSet<[u8; 32]> = held.keys().filter(|(_, t2)| *t2 == tt).map(|(i2, t2)| cid(*i2, *t2)).collect();
            rep.check("ref", gs == ws && nd, "C20/ref/claims/ids-by-topic", || format!("topic {tt}: {} ids listed ({} distinct), model {}", gv.len(), gs.len(), ws.len()));
            for ii in 0..3 {
                let g: Result<Claim, Fail> = invoke(e, &c, "get_claim", args!(e, BytesN::from_array(e, &cid(ii, tt))));
                match (g, held.get(&(ii, tt))) {
                    (Ok(cl), Some(d)) => {
                        rep.check("ref", cl.topic == tt && cl.issuer == issuers[ii] && cl.data == Bytes::from_slice(e, d), "C20/ref/claims/get_claim", || format!("claim (issuer {ii}, topic {tt}) content differs"));
                    }
                    (Err(_), None) => {}
                    (g, m) => {
                        rep.violation("C20/ref/claims/existence", format!("claim (issuer {ii}, topic {tt}): contract {:?}, model {:?}", g.is_ok(), m.is_some()));
                    }
                }
            }
        }
        rep.evaluations += 12;
    }
    rep.end_history();
}

// =================================================================== 8. compliance modules per hook
fn compliance(cfg: &Cfg, rep: &mut Report, h: u64, steps: usize) {
    let mut rng = Rng::for_history(cfg.seed, "C20", cfg.shard, h);
    rep.begin_history(h);
    let w = World::new(100, 16);
    let e = &w.env;
    e.mock_all_auths();
    let c = e.register(ComplC, ());
    let mods = w.accounts(22);
    let hooks = [ComplianceHook::Transferred, ComplianceHook::Created, ComplianceHook::Destroyed, ComplianceHook::CanTransfer, ComplianceHook::CanCreate];
    let mut reg: Vec<BTreeSet<usize>> = vec![BTreeSet::new(); 5];
    for step in 0..steps {
        // (rarely) far beyond every lifetime extension the library asks for: a registry must not forget
        if rng.chance(1, 40) {
            w.set_ledger(w.ledger() + 600_000);
            rep.count("ledger_jumps");
        }
        let hk = if rng.chance(3, 4) { 0 } else { rng.idx(5) };
        let m = rng.idx(22);
        let add = rng.chance(8, 10);
        let (desc, want, r): (String, bool, Result<(), Fail>);
        if add {
            want = !reg[hk].contains(&m) && reg[hk].len() < 20;
            desc = format!("add_module_to(hook {hk}, M{m}) having {}", reg[hk].len());
            r = invoke(e, &c, "add_module_to", args!(e, hooks[hk].clone(), mods[m].clone()));
            rep.case(format!("compliance/add/fill={}/present={}/{}", fill(20, reg[hk].len()), reg[hk].contains(&m), tag(&r)));
            if r.is_ok() {
                reg[hk].insert(m);
            }
        } else {
            let m = if !reg[hk].is_empty() && rng.chance(3, 4) { *reg[hk].iter().nth(rng.idx(reg[hk].len())).unwrap() } else { m };
            want = reg[hk].contains(&m);
            desc = format!("remove_module_from(hook {hk}, M{m})");
            r = invoke(e, &c, "remove_module_from", args!(e, hooks[hk].clone(), mods[m].clone()));
            rep.case(format!("compliance/remove/present={want}/{}", tag(&r)));
            if r.is_ok() {
                reg[hk].remove(&m);
            }
        }
        rep.evaluations += 1;
        rep.op(format!("#{step} {desc} -> {}", tag(&r)));
        rep.count(&format!("compliance:{}", if r.is_ok() { "ok" } else { "refused" }));
        rep.check("ref", r.is_ok() == want, "C20/ref/compliance-modules/outcome", || format!("{desc}: expected ok={want}, got {r:?}"));
        if reg[hk].len() == 20 {
            rep.count("modules_at_limit");
        }
        for (hi, hkk) in hooks.iter().enumerate() {
            let v: SVec<Address> = getv!(rep, "compliance-modules", e, &c, "get_modules_for_hook", args!(e, hkk.clone()));
            let gv: Vec<usize> = v.iter().map(|a| mods.iter().position(|x| *x == a).unwrap_or(usize::MAX)).collect();
            let (gs, nd) = as_set(&gv);
            rep.check("ref", gs == reg[hi] && nd, "C20/ref/compliance-modules/modules-for-hook", || format!("hook {hi}: {gv:?} vs {:?}", reg[hi]));
        }
        let b: bool = getv!(rep, "compliance-modules", e, &c, "is_module_registered", args!(e, hooks[hk].clone(), mods[m].clone()));
        rep.check("ref", b == reg[hk].contains(&m), "C20/ref/compliance-modules/is_module_registered", || format!("hook {hk} module {m}: {b}"));
        rep.evaluations += 6;
    }
    rep.end_history();
}

pub fn run(cfg: &Cfg, rep: &mut Report) {
    rep.rule = "One reference set/map model per registry, every getter compared after every operation: (1) smart-account context rules on the multisig example (ids, per-type lists, count, fingerprints, signer/policy lists; limits 15/15/5), (2) claim topics and trusted issuers, both directions (15/50), (3) claim-issuer signing keys, both directions (50 keys per topic, 20 registries per key, driven exactly to the limit), (4) token binder incl. bind_tokens batches of {0,1,2,50,99,100,101,150,200,201} across buckets of 100 (thorough: to 10 000 and one past), (5) documents across buckets of 50 (thorough: to 5 000 and one past), (6) identities, country profiles (15) and recovery links, (7) claims of an identity, (8) compliance modules per hook (20). Small universes so that duplicates, absent keys, remove-first/last/only and re-adds occur constantly. Distinct case = (registry, op, duplicate/absent/fill-level class, outcome).".into();
    let nh = cfg.pick(5u64, 25);
    for k in 0..nh {
        let jobs: [(u64, &dyn Fn(&Cfg, &mut Report, u64)); 12] = [
            (100, &|c, r, h| context_rules(c, r, h, c.pick(150, 300), false)),
            (200, &|c, r, h| context_rules(c, r, h, c.pick(150, 300), true)),
            (300, &|c, r, h| cti_registry(c, r, h, c.pick(150, 300), false)),
            (400, &|c, r, h| cti_registry(c, r, h, c.pick(200, 400), true)),
            (500, &|c, r, h| issuer_keys(c, r, h, c.pick(120, 250), 0)),
            (600, &|c, r, h| issuer_keys(c, r, h, 60, 1)),
            (700, &|c, r, h| issuer_keys(c, r, h, 90, 2)),
            (800, &|c, r, h| token_binder(c, r, h, c.pick(60, 120), false)),
            (900, &|c, r, h| documents(c, r, h, c.pick(260, 500), false)),
            (1000, &|c, r, h| identities(c, r, h, c.pick(150, 300))),
            (1100, &|c, r, h| claims(c, r, h, c.pick(100, 200))),
            (1200, &|c, r, h| compliance(c, r, h, c.pick(150, 300))),
        ];
        for (base, f) in jobs.iter() {
            let h = base * 100 + k;
            if cfg.runs(h) {
                f(cfg, rep, h);
            }
        }
    }
    if cfg.thorough() {
        // capacity runs: one shard each (a batch of 200 costs the contract 200 x count/100 bucket reads:
        // filling the binder takes minutes, which the quick tier does not have)
        if cfg.shard == 0 && cfg.runs(900_001) {
            token_binder(cfg, rep, 900_001, 120, true);
        }
        if cfg.shard == 1 && cfg.runs(900_002) {
            documents(cfg, rep, 900_002, 5_800, true);
        }
    }
    rep.floor_on("key_reached_20_registries", 1, &["key_reached_20_registries"]);
    rep.floor_on("listed_key_paired_again_at_full_topic", 3, &["listed_key_paired_again_at_full_topic"]);
    rep.floor_on("rules_at_limit", 1, &["rules_at_limit"]);
    rep.floor_on("topics_at_limit", 1, &["topics_at_limit"]);
    rep.floor_on("issuer_topic_lists_of_exactly_15", 1, &["issuer_topic_lists_of_exactly_15"]);
    rep.floor_on("modules_at_limit", 1, &["modules_at_limit"]);
    if cfg.thorough() {
        rep.floor_on("docs_at_max", 1, &["docs_at_max"]);
        rep.floor_on("stored_document_updated_at_capacity", 1, &["stored_document_updated_at_capacity"]);
        rep.floor_on("new_document_offered_at_capacity", 1, &["new_document_offered_at_capacity"]);
        rep.floor_on("single_bind_at_capacity", 1, &["single_bind_at_capacity"]);
        rep.floor_on("binder_at_max", 1, &["binder_at_max"]);
        rep.floor_on("batch_fills_binder_exactly", 1, &["batch_fills_binder_exactly"]);
        rep.floor_on("batch_one_past_capacity", 1, &["batch_one_past_capacity"]);
    }
    let _ = (Symbol::new, Env::default);
}
