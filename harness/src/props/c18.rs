//! C18 — signature verifiers accept exactly genuine, well-formed assertions.
//! DIFF: freshly produced genuine WebAuthn / Ed25519 assertions vs single corruptions, all 256 flag
//! bytes (re-signed, so that only the flag rule decides), independent RFC 4648 §5 encoder.
use crate::args;
use crate::examples::ed25519_verifier::Ed25519VerifierContract;
use crate::examples::webauthn_verifier::WebauthnVerifierContract;
use crate::report::Report;
use crate::rng::Rng;
use crate::world::{invoke, Fail, World};
use crate::Cfg;
use p256::ecdsa::signature::hazmat::PrehashSigner;
use p256::elliptic_curve::sec1::ToEncodedPoint;
use sha2::Digest;
use soroban_sdk::xdr::ToXdr;
use soroban_sdk::{Address, Bytes, BytesN, Env};
use stellar_accounts::verifiers::utils::base64_url_encode;
use stellar_accounts::verifiers::webauthn::WebAuthnSigData;

/// Independent RFC 4648 §5 (URL-safe alphabet), no padding.
fn b64url(src: &[u8]) -> Vec<u8> {
    const A: &[u8; 64] = b"ABCDEFGHIJKLMNOPQRSTUVWXYZabcdefghijklmnopqrstuvwxyz0123456789-_";
    let mut out = vec![];
    let mut acc: u32 = 0;
    let mut bits = 0;
    for b in src {
        acc = (acc << 8) | *b as u32;
        bits += 8;
        while bits >= 6 {
            bits -= 6;
            out.push(A[((acc >> bits) & 63) as usize]);
        }
    }
    if bits > 0 {
        out.push(A[((acc << (6 - bits)) & 63) as usize]);
    }
    out
}

struct Assertion {
    payload: Vec<u8>,
    key: Vec<u8>,
    auth_data: Vec<u8>,
    client_data: Vec<u8>,
    signature: [u8; 64],
}

fn sign(sk: &p256::ecdsa::SigningKey, auth_data: &[u8], client_data: &[u8]) -> [u8; 64] {
    let cdh = sha2::Sha256::digest(client_data);
    let mut msg = auth_data.to_vec();
    msg.extend_from_slice(&cdh);
    let digest = sha2::Sha256::digest(&msg);
    let sig: p256::ecdsa::Signature = sk.sign_prehash(&digest).unwrap();
    let sig = sig.normalize_s().unwrap_or(sig);
    sig.to_bytes().into()
}

fn client_json(typ: &str, challenge: &[u8], pad_to: Option<usize>) -> Vec<u8> {
    let mut s = format!("{{\"type\":\"{typ}\",\"challenge\":\"{}\",\"origin\":\"https://example.com", String::from_utf8_lossy(challenge));
    let tail = "\",\"crossOrigin\":false}";
    if let Some(n) = pad_to {
        while s.len() + tail.len() < n {
            s.push('a');
        }
    }
    s.push_str(tail);
    s.into_bytes()
}

fn genuine(rng: &mut Rng, sk: &p256::ecdsa::SigningKey, flags: u8) -> Assertion {
    let payload: [u8; 32] = rng.bytes();
    let mut auth_data: Vec<u8> = rng.bytes::<32>().to_vec();
    auth_data.push(flags);
    auth_data.extend_from_slice(&(rng.below(1000) as u32).to_be_bytes());
    let client_data = client_json("webauthn.get", &b64url(&payload), None);
    let signature = sign(sk, &auth_data, &client_data);
    Assertion { payload: payload.to_vec(), key: sk.verifying_key().to_encoded_point(false).as_bytes().to_vec(), auth_data, client_data, signature }
}

fn call_webauthn(e: &Env, c: &Address, a: &Assertion) -> Result<bool, Fail> {
    let sd = WebAuthnSigData { signature: BytesN::from_array(e, &a.signature), authenticator_data: Bytes::from_slice(e, &a.auth_data), client_data: Bytes::from_slice(e, &a.client_data) };
    let sig_data: Bytes = sd.to_xdr(e);
    invoke(e, c, "verify", args!(e, Bytes::from_slice(e, &a.payload), Bytes::from_slice(e, &a.key), sig_data))
}

fn accepted(r: &Result<bool, Fail>) -> bool {
    matches!(r, Ok(true))
}

fn webauthn(cfg: &Cfg, rep: &mut Report, h: u64) {
    let mut rng = Rng::for_history(cfg.seed, "C18", cfg.shard, h);
    rep.begin_history(h);
    let w = World::new(10, 16);
    let e = &w.env;
    let c = e.register(WebauthnVerifierContract, ());
    let sk = loop {
        if let Ok(s) = p256::ecdsa::SigningKey::from_slice(&rng.bytes::<32>()) {
            break s;
        }
    };
    let reject = |rep: &mut Report, kind: &str, a: &Assertion| {
        let r = call_webauthn(e, &c, a);
        rep.evaluations += 1;
        rep.case(format!("webauthn/{kind}/{}", match &r { Ok(b) => b.to_string(), Err(f) => f.tag() }));
        rep.check("corrupt", !accepted(&r), &format!("C18/corrupt/webauthn/accepted/{kind}"), || format!("assertion with corruption '{kind}' was accepted"));
    };
    let accept = |rep: &mut Report, kind: &str, a: &Assertion| {
        let r = call_webauthn(e, &c, a);
        rep.evaluations += 1;
        rep.case(format!("webauthn/{kind}/{}", match &r { Ok(b) => b.to_string(), Err(f) => f.tag() }));
        rep.check("genuine", accepted(&r), &format!("C18/genuine/webauthn/rejected/{kind}"), || format!("genuine assertion ({kind}) rejected: {r:?}; client data {}", String::from_utf8_lossy(&a.client_data)));
        rep.count("webauthn_genuine_accepted");
    };
    let g = genuine(&mut rng, &sk, 0x05);
    rep.op(format!("webauthn key/payload fresh; client data {}", String::from_utf8_lossy(&g.client_data)));
    accept(rep, "genuine", &g);
    // other shapes of the client data an authenticator / browser may legitimately produce: member order,
    // further (also nested) members, insignificant white space. Re-signed, so all of them are genuine.
    {
        let ch = String::from_utf8_lossy(&b64url(&g.payload)).to_string();
        let other = String::from_utf8_lossy(&b64url(&rng.bytes::<32>())).to_string();
        let shapes: Vec<(&str, String, bool)> = vec![
            ("challenge-before-type", format!("{{\"challenge\":\"{ch}\",\"type\":\"webauthn.get\",\"origin\":\"https://example.com\",\"crossOrigin\":false}}"), true),
            ("type-last", format!("{{\"origin\":\"https://example.com\",\"crossOrigin\":false,\"challenge\":\"{ch}\",\"type\":\"webauthn.get\"}}"), true),
            ("extra-string-member", format!("{{\"type\":\"webauthn.get\",\"challenge\":\"{ch}\",\"origin\":\"https://example.com\",\"crossOrigin\":false,\"other_keys_can_be_added_here\":\"do not compare clientDataJSON against a template\"}}"), true),
            ("nested-member", format!("{{\"type\":\"webauthn.get\",\"challenge\":\"{ch}\",\"origin\":\"https://example.com\",\"tokenBinding\":{{\"status\":\"supported\",\"ids\":[1,2,3]}},\"crossOrigin\":true}}"), true),
            ("white-space", format!("{{ \"type\" : \"webauthn.get\" ,\n  \"challenge\" : \"{ch}\" ,\t\"origin\" : \"https://example.com\" }}"), true),
            // not genuine: the right values appear, but not as the top-level type / challenge members
            ("decoy-challenge-in-other-member", format!("{{\"type\":\"webauthn.get\",\"challenge\":\"{other}\",\"origin\":\"https://example.com/?challenge={ch}\",\"x\":{{\"challenge\":\"{ch}\"}}}}"), false),
            ("decoy-type-in-nested-member", format!("{{\"type\":\"webauthn.create\",\"challenge\":\"{ch}\",\"x\":{{\"type\":\"webauthn.get\"}}}}"), false),
            // something follows the object: further bytes, or a whole second object saying otherwise
            ("bytes-after-the-object", format!("{{\"type\":\"webauthn.get\",\"challenge\":\"{ch}\",\"origin\":\"https://example.com\"}}xyz"), false),
            ("second-object-after-the-first", format!("{{\"type\":\"webauthn.get\",\"challenge\":\"{ch}\"}}{{\"type\":\"webauthn.create\",\"challenge\":\"{other}\"}}"), false),
            ("object-cut-short", format!("{{\"type\":\"webauthn.get\",\"challenge\":\"{ch}\",\"origin\":\"https://example.com\""), false),
            ("challenge-with-suffix", format!("{{\"type\":\"webauthn.get\",\"challenge\":\"{ch}A\",\"origin\":\"https://example.com\"}}"), false),
            ("type-with-suffix", format!("{{\"type\":\"webauthn.get2\",\"challenge\":\"{ch}\",\"origin\":\"https://example.com\"}}"), false),
        ];
        for (kind, json, good) in shapes {
            let mut a = Assertion { payload: g.payload.clone(), key: g.key.clone(), auth_data: g.auth_data.clone(), client_data: json.into_bytes(), signature: g.signature };
            a.signature = sign(&sk, &a.auth_data, &a.client_data);
            if good {
                accept(rep, &format!("client-data-shape/{kind}"), &a);
            } else {
                reject(rep, &format!("client-data-shape/{kind}"), &a);
            }
        }
    }
    // every bit of the payload
    for bit in 0..256 {
        let mut a = Assertion { payload: g.payload.clone(), key: g.key.clone(), auth_data: g.auth_data.clone(), client_data: g.client_data.clone(), signature: g.signature };
        a.payload[bit / 8] ^= 1 << (bit % 8);
        reject(rep, "payload-bit", &a);
    }
    let clone = |g: &Assertion| Assertion { payload: g.payload.clone(), key: g.key.clone(), auth_data: g.auth_data.clone(), client_data: g.client_data.clone(), signature: g.signature };
    for _ in 0..24 {
        let mut a = clone(&g);
        let i = 1 + rng.idx(64); // not the SEC1 tag byte: that is a format matter, covered below
        a.key[i] ^= 1 << rng.idx(8);
        reject(rep, "key-bit", &a);
    }
    {
        let mut a = clone(&g);
        a.key[0] = 0x02;
        reject(rep, "key-tag", &a);
        let mut a = clone(&g);
        a.key.truncate(64);
        reject(rep, "key-short", &a);
    }
    for _ in 0..32 {
        let mut a = clone(&g);
        a.signature[rng.idx(64)] ^= 1 << rng.idx(8);
        reject(rep, "signature-bit", &a);
    }
    for _ in 0..24 {
        let mut a = clone(&g);
        let i = rng.idx(a.auth_data.len());
        if i == 32 {
            continue;
        }
        a.auth_data[i] ^= 1 << rng.idx(8);
        reject(rep, "authdata-bit", &a);
    }
    for _ in 0..32 {
        let mut a = clone(&g);
        let i = rng.idx(a.client_data.len());
        a.client_data[i] ^= 1 << rng.idx(7);
        reject(rep, "clientdata-bit", &a);
    }
    // all 256 flag bytes, re-signed
    for f in 0..=255u8 {
        let a = genuine(&mut rng, &sk, f);
        let up = f & 1 != 0;
        let uv = f & 4 != 0;
        let be = f & 8 != 0;
        let bs = f & 16 != 0;
        let want = up && uv && !(!be && bs);
        let r = call_webauthn(e, &c, &a);
        rep.evaluations += 1;
        rep.case(format!("webauthn/flags/up={up}/uv={uv}/be={be}/bs={bs}/{}", accepted(&r)));
        rep.check("flags", accepted(&r) == want, "C18/flags/webauthn/flag-rule", || format!("flags byte {f:#04x} (UP {up}, UV {uv}, BE {be}, BS {bs}): accepted={}, rule says {want}", accepted(&r)));
    }
    // type field
    for typ in ["webauthn.create", "webauthn.get ", "Webauthn.get", "", "webauthn.ge", "webauthn.gett"] {
        let mut a = clone(&g);
        a.client_data = client_json(typ, &b64url(&g.payload), None);
        a.signature = sign(&sk, &a.auth_data, &a.client_data);
        reject(rep, "type", &a);
    }
    // challenge variants, re-signed
    let other: [u8; 32] = rng.bytes();
    let good = b64url(&g.payload);
    let mut padded = good.clone();
    padded.push(b'=');
    let std_alpha: Vec<u8> = good.iter().map(|c| match c { b'-' => b'+', b'_' => b'/', x => *x }).collect();
    let mut variants: Vec<(&str, Vec<u8>)> = vec![("challenge-padded", padded), ("challenge-other-payload", b64url(&other)), ("challenge-truncated", good[..42].to_vec()), ("challenge-empty", vec![]), ("challenge-hex", hex::encode(&g.payload).into_bytes())];
    if std_alpha != good {
        variants.push(("challenge-standard-alphabet", std_alpha));
    }
    let mut lower = good.clone();
    if let Some(p) = lower.iter().position(|c| c.is_ascii_uppercase()) {
        lower[p] = lower[p].to_ascii_lowercase();
        variants.push(("challenge-case", lower));
    }
    for (kind, ch) in variants {
        let mut a = clone(&g);
        a.client_data = client_json("webauthn.get", &ch, None);
        a.signature = sign(&sk, &a.auth_data, &a.client_data);
        reject(rep, kind, &a);
    }
    // client data length bound: exactly 1024 accepted, 1025 rejected (both genuine otherwise)
    for (n, ok) in [(1023usize, true), (1024, true), (1025, false), (2000, false)] {
        let mut a = clone(&g);
        a.client_data = client_json("webauthn.get", &good, Some(n));
        assert_eq!(a.client_data.len(), n);
        a.signature = sign(&sk, &a.auth_data, &a.client_data);
        if ok {
            accept(rep, "clientdata-length-at-bound", &a);
        } else {
            reject(rep, "clientdata-too-long", &a);
        }
    }
    // authenticator data length: 36 rejected, 37 accepted, longer accepted
    for (n, ok) in [(33usize, false), (36, false), (37, true), (120, true)] {
        let mut a = clone(&g);
        a.auth_data.resize(n, 0xAB);
        if n > 32 {
            a.auth_data[32] = 0x05;
        }
        a.signature = sign(&sk, &a.auth_data, &a.client_data);
        if ok {
            accept(rep, "authdata-length-ok", &a);
        } else {
            reject(rep, "authdata-too-short", &a);
        }
    }
    // bytes appended to the authenticator data after signing: the signed bytes changed
    {
        let mut a = clone(&g);
        a.auth_data.extend_from_slice(&[1, 2, 3, 4, 5]);
        reject(rep, "authdata-appended-unsigned", &a);
        let mut a = clone(&g);
        a.client_data.push(b' ');
        reject(rep, "clientdata-appended-unsigned", &a);
    }
    // payload shorter than 32 bytes
    for n in [0usize, 1, 31] {
        let mut a = clone(&g);
        a.payload.truncate(n);
        reject(rep, "payload-short", &a);
    }
    // key data as documented for the verifier contract: the 65-byte key followed by a credential id
    // of any length; the same key preceded by a byte, or cut short, is another (or no) key
    for n in [1usize, 16, 64, 300] {
        let mut a = clone(&g);
        let id: Vec<u8> = (0..n).map(|_| rng.below(256) as u8).collect();
        a.key.extend_from_slice(&id);
        accept(rep, "key-followed-by-credential-id", &a);
    }
    {
        let mut a = clone(&g);
        a.key.insert(0, 0x04);
        reject(rep, "key-shifted-by-one", &a);
        for n in [0usize, 1, 33] {
            let mut a = clone(&g);
            a.key.truncate(n);
            reject(rep, "key-short", &a);
        }
        // another key in front, the genuine one behind it
        let mut a = clone(&g);
        let mut k2 = loop {
            if let Ok(s) = p256::ecdsa::SigningKey::from_slice(&rng.bytes::<32>()) {
                break s.verifying_key().to_encoded_point(false).as_bytes().to_vec();
            }
        };
        k2.extend_from_slice(&g.key);
        a.key = k2;
        reject(rep, "genuine-key-behind-another", &a);
    }
    // signature data that is not the XDR of the documented structure
    {
        let sd = WebAuthnSigData { signature: BytesN::from_array(e, &g.signature), authenticator_data: Bytes::from_slice(e, &g.auth_data), client_data: Bytes::from_slice(e, &g.client_data) };
        let good_xdr: Vec<u8> = sd.to_xdr(e).iter().collect();
        let mut bad: Vec<(&str, Vec<u8>)> = vec![("sigdata-empty", vec![]), ("sigdata-random", (0..good_xdr.len()).map(|_| rng.below(256) as u8).collect())];
        for cut in [1usize, 4, 8, good_xdr.len() / 2] {
            bad.push(("sigdata-truncated", good_xdr[..good_xdr.len() - cut].to_vec()));
        }
        // a bare byte string instead of the structure
        bad.push(("sigdata-not-a-structure", Bytes::from_slice(e, &g.signature).to_xdr(e).iter().collect()));
        for (kind, raw) in bad {
            let r: Result<bool, Fail> = invoke(e, &c, "verify", args!(e, Bytes::from_slice(e, &g.payload), Bytes::from_slice(e, &g.key), Bytes::from_slice(e, &raw)));
            rep.evaluations += 1;
            rep.case(format!("webauthn/{kind}/{}", match &r { Ok(b) => b.to_string(), Err(f) => f.tag() }));
            rep.check("corrupt", !accepted(&r), &format!("C18/corrupt/webauthn/accepted/{kind}"), || format!("signature data '{kind}' was accepted"));
        }
        let r: Result<bool, Fail> = invoke(e, &c, "verify", args!(e, Bytes::from_slice(e, &g.payload), Bytes::from_slice(e, &g.key), Bytes::from_slice(e, &good_xdr)));
        rep.check("genuine", accepted(&r), "C18/genuine/webauthn/rejected/sigdata-roundtrip", || format!("genuine signature data rejected: {r:?}"));
    }
    // signed by another key
    let sk2 = loop {
        if let Ok(s) = p256::ecdsa::SigningKey::from_slice(&rng.bytes::<32>()) {
            break s;
        }
    };
    let mut a = clone(&g);
    a.signature = sign(&sk2, &a.auth_data, &a.client_data);
    reject(rep, "other-signer", &a);
    rep.end_history();
}

fn ed25519(cfg: &Cfg, rep: &mut Report, h: u64) {
    let mut rng = Rng::for_history(cfg.seed, "C18", cfg.shard, h);
    rep.begin_history(h);
    let w = World::new(10, 16);
    let e = &w.env;
    let c = e.register(Ed25519VerifierContract, ());
    use ed25519_dalek::Signer as _;
    let sk = ed25519_dalek::SigningKey::from_bytes(&rng.bytes::<32>());
    let payload: [u8; 32] = rng.bytes();
    let sig = sk.sign(&payload).to_bytes();
    let pk = sk.verifying_key().to_bytes();
    let call = |p: &[u8], k: &[u8; 32], s: &[u8; 64]| -> Result<bool, Fail> { invoke(e, &c, "verify", args!(e, Bytes::from_slice(e, p), BytesN::from_array(e, k), BytesN::from_array(e, s))) };
    let r = call(&payload, &pk, &sig);
    rep.evaluations += 1;
    rep.check("genuine", accepted(&r), "C18/genuine/ed25519/rejected", || format!("genuine ed25519 signature rejected: {r:?}"));
    rep.count("ed25519_genuine_accepted");
    for bit in 0..256 {
        let mut p = payload;
        p[bit / 8] ^= 1 << (bit % 8);
        let r = call(&p, &pk, &sig);
        rep.evaluations += 1;
        rep.case(format!("ed25519/payload-bit/{}", accepted(&r)));
        rep.check("corrupt", !accepted(&r), "C18/corrupt/ed25519/accepted/payload-bit", || format!("payload bit {bit} flipped, still accepted"));
    }
    for _ in 0..48 {
        let mut k = pk;
        k[rng.idx(32)] ^= 1 << rng.idx(8);
        let r = call(&payload, &k, &sig);
        rep.evaluations += 1;
        rep.case(format!("ed25519/key-bit/{}", accepted(&r)));
        rep.check("corrupt", !accepted(&r), "C18/corrupt/ed25519/accepted/key-bit", || "key bit flipped, still accepted".to_string());
        let mut s = sig;
        s[rng.idx(64)] ^= 1 << rng.idx(8);
        let r = call(&payload, &pk, &s);
        rep.evaluations += 1;
        rep.case(format!("ed25519/signature-bit/{}", accepted(&r)));
        rep.check("corrupt", !accepted(&r), "C18/corrupt/ed25519/accepted/signature-bit", || "signature bit flipped, still accepted".to_string());
    }
    // key and signature handed over as byte strings of other lengths: the genuine bytes followed by more,
    // or cut short, are not the key / the signature
    {
        let raw = |k: &[u8], s: &[u8]| -> Result<bool, Fail> { invoke(e, &c, "verify", args!(e, Bytes::from_slice(e, &payload), Bytes::from_slice(e, k), Bytes::from_slice(e, s))) };
        let r = raw(&pk, &sig);
        rep.check("genuine", accepted(&r), "C18/genuine/ed25519/rejected/as-byte-strings", || format!("genuine key and signature passed as byte strings of 32 / 64 bytes rejected: {r:?}"));
        for extra in [1usize, 32, 64] {
            let mut s2 = sig.to_vec();
            s2.extend((0..extra).map(|_| rng.below(256) as u8));
            let r = raw(&pk, &s2);
            rep.evaluations += 1;
            rep.case(format!("ed25519/signature-followed-by-bytes/{}", match &r { Ok(b) => b.to_string(), Err(f) => f.tag() }));
            rep.check("corrupt", !accepted(&r), "C18/corrupt/ed25519/accepted/signature-followed-by-bytes", || format!("a genuine signature followed by {extra} more bytes was accepted"));
            let mut k2 = pk.to_vec();
            k2.extend((0..extra).map(|_| rng.below(256) as u8));
            let r = raw(&k2, &sig);
            rep.evaluations += 1;
            rep.case(format!("ed25519/key-followed-by-bytes/{}", match &r { Ok(b) => b.to_string(), Err(f) => f.tag() }));
            rep.check("corrupt", !accepted(&r), "C18/corrupt/ed25519/accepted/key-followed-by-bytes", || format!("the genuine key followed by {extra} more bytes was accepted"));
        }
        for cut in [1usize, 32] {
            let r = raw(&pk, &sig[..64 - cut]);
            rep.check("corrupt", !accepted(&r), "C18/corrupt/ed25519/accepted/signature-cut-short", || format!("signature cut by {cut} bytes accepted"));
            let r = raw(&pk[..32 - cut.min(31)], &sig);
            rep.check("corrupt", !accepted(&r), "C18/corrupt/ed25519/accepted/key-cut-short", || "key cut short accepted".to_string());
            rep.evaluations += 2;
        }
    }
    // other lengths of payload are signed bytes too: a signature over a prefix is not one over the whole
    let r = call(&payload[..31], &pk, &sig);
    rep.check("corrupt", !accepted(&r), "C18/corrupt/ed25519/accepted/payload-truncated", || "truncated payload accepted".to_string());
    // the Ed25519 verifier signs the payload as given, of whatever length: a genuine signature over a
    // shorter or longer payload is accepted, one over a prefix or an extension of it is not
    for len in [0usize, 1, 31, 33, 48, 64, 100] {
        let mut p: Vec<u8> = payload.to_vec();
        while p.len() < len {
            p.push(rng.next() as u8);
        }
        p.truncate(len);
        let s = sk.sign(&p).to_bytes();
        let r = call(&p, &pk, &s);
        rep.evaluations += 3;
        rep.case(format!("ed25519/payload-len={len}/genuine/{}", accepted(&r)));
        rep.check("genuine", accepted(&r), "C18/genuine/ed25519/rejected/other-payload-length", || format!("genuine ed25519 signature over a {len}-byte payload rejected: {r:?}"));
        if len > 32 {
            // signature over the first 32 bytes only, presented for the whole payload
            let r = call(&p, &pk, &sig);
            rep.case(format!("ed25519/payload-len={len}/prefix-signature/{}", accepted(&r)));
            rep.check("corrupt", !accepted(&r), "C18/corrupt/ed25519/accepted/signature-over-prefix", || format!("a signature over the first 32 bytes was accepted for the {len}-byte payload"));
            // the tail is authenticated too
            let mut q = p.clone();
            let n = q.len();
            q[n - 1] ^= 1;
            let r = call(&q, &pk, &s);
            rep.case(format!("ed25519/payload-len={len}/tail-bit/{}", accepted(&r)));
            rep.check("corrupt", !accepted(&r), "C18/corrupt/ed25519/accepted/payload-tail-bit", || format!("last byte of a {len}-byte payload altered, still accepted"));
        }
    }
    rep.end_history();
}

fn encoder(cfg: &Cfg, rep: &mut Report) {
    rep.begin_history(99_000);
    let check = |rep: &mut Report, src: &[u8]| {
        let want = b64url(src);
        // 8 sentinel bytes behind the exact length: an encoder that emits padding or more characters
        // shows up as an overwritten sentinel, one that indexes out of bounds as a caught panic
        let mut dst = vec![0xAAu8; want.len() + 8];
        let r = std::panic::catch_unwind(std::panic::AssertUnwindSafe(|| base64_url_encode(&mut dst, src)));
        rep.evaluations += 1;
        if r.is_err() {
            rep.check("encoder", false, "C18/encoder/base64_url_encode/panicked", || format!("input {src:?}: {}", crate::last_panic()));
            return;
        }
        let (head, tail) = dst.split_at(want.len());
        rep.check("encoder", head == &want[..] && tail.iter().all(|b| *b == 0xAA), "C18/encoder/base64_url_encode/differs-from-rfc4648", || format!("input {src:?}: got {:?} (bytes behind the expected length: {tail:?}), RFC 4648 §5 gives {:?}", String::from_utf8_lossy(head), String::from_utf8_lossy(&want)));
    };
    // exhaustive for lengths 0..=2, split over shards by first byte
    if cfg.shard == 0 {
        check(rep, &[]);
    }
    for a in 0..=255u8 {
        if a as u32 % cfg.nshards != cfg.shard {
            continue;
        }
        check(rep, &[a]);
        for b in 0..=255u8 {
            check(rep, &[a, b]);
        }
    }
    rep.case("encoder/len0-2/exhaustive".into());
    let mut rng = Rng::for_history(cfg.seed, "C18", cfg.shard, 99_000);
    for len in 3..=100usize {
        for _ in 0..cfg.pick(20, 4000) {
            let src: Vec<u8> = (0..len).map(|_| rng.next() as u8).collect();
            check(rep, &src);
        }
        rep.case(format!("encoder/len-mod-3={}/len-class={}", len % 3, len / 25));
    }
    // all-ones / all-zero / 0xFB 0xFF patterns exercise the two URL-safe characters
    for len in 0..=40usize {
        for fill in [0x00u8, 0xFF, 0xFB, 0xFE, 0x3E, 0x3F] {
            check(rep, &vec![fill; len]);
        }
    }
    rep.end_history();
}

/// `extract_from_bytes::<N>(data, a..b)`: the N bytes data[a..b] iff b <= len and b - a == N, otherwise
/// nothing (never a trap): the slice model decides. Only ranges with a <= b are drawn.
fn extractor(cfg: &Cfg, rep: &mut Report) {
    use stellar_accounts::verifiers::utils::extract_from_bytes;
    rep.begin_history(99_001);
    let mut rng = Rng::for_history(cfg.seed, "C18", cfg.shard, 99_001);
    let e = Env::default();
    fn one<const N: usize>(e: &Env, rep: &mut Report, data: &[u8], a: u32, b: u32, form: u32) {
        // one environment serves the whole sweep: without this its metering budget, which is per
        // invocation everywhere else, runs out after some tens of thousands of calls (seen in the
        // thorough tier as a trap that was nobody's fault)
        crate::world::reset_budget(e);
        let d = Bytes::from_slice(e, data);
        let len = data.len() as u32;
        // the four range forms that denote [a, b)
        let (form_name, r) = match form {
            0 => ("a..b", std::panic::catch_unwind(std::panic::AssertUnwindSafe(|| extract_from_bytes::<N>(e, &d, a..b)))),
            1 if b > a => ("a..=b-1", std::panic::catch_unwind(std::panic::AssertUnwindSafe(|| extract_from_bytes::<N>(e, &d, a..=b - 1)))),
            2 if a == 0 => ("..b", std::panic::catch_unwind(std::panic::AssertUnwindSafe(|| extract_from_bytes::<N>(e, &d, ..b)))),
            3 if b == len => ("a..", std::panic::catch_unwind(std::panic::AssertUnwindSafe(|| extract_from_bytes::<N>(e, &d, a..)))),
            _ => return,
        };
        rep.evaluations += 1;
        let want: Option<Vec<u8>> = if b <= len && (b - a) as usize == N { Some(data[a as usize..b as usize].to_vec()) } else { None };
        rep.case(format!("extract/N={N}/{form_name}/{}/{}", if b > len { "beyond-end" } else if b == len { "to-end" } else { "inside" }, if want.is_some() { "some" } else if ((b - a) as usize) < N { "too-few" } else { "too-many-or-out" }));
        match r {
            Err(_) => {
                rep.check("extract", false, &format!("C18/extract/extract_from_bytes/{form_name}/trapped-instead-of-answering"), || format!("N={N}, {} bytes, range {a}..{b}: {}", data.len(), crate::last_panic()));
            }
            Ok(got) => {
                let got: Option<Vec<u8>> = got.map(|x| x.to_array().to_vec());
                if want.is_some() {
                    rep.count("extracts_answered");
                }
                rep.check("extract", got == want, &format!("C18/extract/extract_from_bytes/{form_name}/differs-from-slice"), || format!("N={N}, data {data:?}, range {a}..{b}: got {got:?}, the slice model gives {want:?}"));
            }
        }
    }
    for _ in 0..cfg.pick(3000u32, 200_000) {
        let len = match rng.below(6) {
            0 => rng.below(8) as usize,
            1 => 65,
            2 => 64 + rng.below(4) as usize,
            _ => rng.below(140) as usize,
        };
        let data: Vec<u8> = (0..len).map(|_| rng.next() as u8).collect();
        let n = [1usize, 4, 32, 65][rng.idx(4)];
        let a = match rng.below(3) {
            0 => 0,
            _ => rng.below(len as u64 + 2) as u32,
        };
        let b = match rng.below(4) {
            0 => a + n as u32,
            1 => len as u32,
            2 => a + (n as u32).saturating_sub(1) + rng.below(3) as u32,
            _ => a + rng.below(80) as u32,
        };
        let b = b.max(a);
        let form = rng.below(4) as u32;
        match n {
            1 => one::<1>(&e, rep, &data, a, b, form),
            4 => one::<4>(&e, rep, &data, a, b, form),
            32 => one::<32>(&e, rep, &data, a, b, form),
            _ => one::<65>(&e, rep, &data, a, b, form),
        }
    }
    rep.end_history();
}

pub fn run(cfg: &Cfg, rep: &mut Report) {
    rep.rule = "Per history a fresh P-256 (resp. Ed25519) key pair and 32-byte payload; a genuine assertion built with independent crypto (p256, ed25519-dalek, sha2) must be accepted by the real verifier examples; then single corruptions: every bit of the payload (256), sampled bits of key / signature / authenticator data / client data, all 256 flag bytes re-signed (accept iff UP and UV and not(BS without BE)), client-data shapes (member order, further and nested members, white space; decoys of type / challenge inside other members; bytes or a second object after the object, an object cut short), type variants, challenge variants (padded, standard alphabet, other payload, truncated, empty, hex, case), client data of 1023/1024/1025/2000 bytes, authenticator data of 33/36/37/120 bytes, payloads of 0/1/31 bytes, another signer; key data followed by a credential id of 1/16/64/300 bytes (accepted), shifted, cut short or behind another key (rejected); signature data that is empty, random, truncated XDR or XDR of another type (rejected); Ed25519 payloads of 0/1/31/33/48/64/100 bytes (genuine accepted, prefix signature and altered tail rejected); key and signature as byte strings followed by 1/32/64 more bytes or cut short (rejected). Encoder: all inputs of length 0-2 exhaustively (split over shards), random inputs of every length 3..=100, fill patterns. extract_from_bytes::<1|4|32|65> against the slice model over the four range forms (Some(data[a..b]) iff b <= len and b-a == N, else None, never a trap). Distinct case = (verifier, corruption kind or flag bits, outcome). Not judged: WebAuthn payloads longer than 32 bytes (documented: first 32 bytes used) and algebraic signature malleability (host behaviour).".into();
    let nh = cfg.pick(12u64, 1200);
    for k in 0..nh {
        if cfg.runs(k) {
            webauthn(cfg, rep, k);
        }
        if cfg.runs(1000 + k) {
            ed25519(cfg, rep, 1000 + k);
        }
    }
    if cfg.runs(99_000) {
        encoder(cfg, rep);
    }
    if cfg.runs(99_001) {
        extractor(cfg, rep);
    }
    rep.floor_on("webauthn_genuine", 3, &["webauthn_genuine_accepted"]);
    rep.floor_on("ed25519_genuine", 1, &["ed25519_genuine_accepted"]);
    rep.floor_on("extracts_answered", 50, &["extracts_answered"]);
}
