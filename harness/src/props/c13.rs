//! C13 — voting power equals delegated balances, now and at every past ledger.
//! REF: timeline model of end-of-ledger values; LOG: every past query is repeated at the end of the
//! history and must be unchanged (immutability of the past); future lookups refused.
use crate::args;
use crate::contracts::nft::NftVotes;
use crate::contracts::tokens::TokVotes;
use crate::examples;
use crate::report::Report;
use crate::rng::Rng;
use crate::world::{Must, invoke, tag, Fail, World};
use crate::Cfg;
use soroban_sdk::{Address, Val, Vec as SVec};
use std::collections::BTreeMap;

#[derive(Clone, Copy, PartialEq, Eq, Debug)]
enum Kind {
    Fungible,
    ExFungible,
    Nft,
}

impl Kind {
    fn name(&self) -> &'static str {
        match self {
            Kind::Fungible => "fungible-votes",
            Kind::ExFungible => "ex-fungible-votes",
            Kind::Nft => "nft-votes",
        }
    }
}

#[derive(Clone, Debug)]
enum Op {
    Mint { to: usize, a: i128 },
    Burn { from: usize, a: i128, id: u32 },
    Transfer { from: usize, to: usize, a: i128, id: u32 },
    Delegate { who: usize, to: usize },
    /// allowance / approval path: `from` approves `sp` for exactly this amount (token) first
    TransferFrom { sp: usize, from: usize, to: usize, a: i128, id: u32 },
    BurnFrom { sp: usize, from: usize, a: i128, id: u32 },
}

struct Model {
    n: usize,
    units: Vec<u128>,
    delegate: Vec<Option<usize>>,
    /// end-of-ledger values, appended/overwritten while operating inside a ledger
    timeline: Vec<(u32, Vec<u128>, u128)>,
    nft_owner: BTreeMap<u32, usize>,
}

impl Model {
    fn votes(&self) -> Vec<u128> {
        let mut v = vec![0u128; self.n];
        for a in 0..self.n {
            if let Some(d) = self.delegate[a] {
                v[d] += self.units[a];
            }
        }
        v
    }
    fn total(&self) -> u128 {
        self.units.iter().sum()
    }
    fn record(&mut self, ledger: u32) {
        let entry = (ledger, self.votes(), self.total());
        match self.timeline.last_mut() {
            Some(l) if l.0 == ledger => *l = entry,
            _ => self.timeline.push(entry),
        }
    }
    /// value that held at the end of `ledger`
    fn at(&self, ledger: u32) -> (Vec<u128>, u128) {
        match self.timeline.iter().rev().find(|(l, _, _)| *l <= ledger) {
            Some((_, v, t)) => (v.clone(), *t),
            None => (vec![0; self.n], 0),
        }
    }
}

fn remember(asked: &mut Vec<(Option<usize>, u32, u128)>, seen: &mut usize, cap: usize, item: (Option<usize>, u32, u128)) {
    *seen += 1;
    if asked.len() < cap {
        asked.push(item);
    } else if *seen % 8 == 0 {
        let i = (*seen / 8) % cap;
        asked[i] = item;
    }
}

fn history(cfg: &Cfg, rep: &mut Report, kind: Kind, h: u64, ledgers: usize) {
    let mut rng = Rng::for_history(cfg.seed, "C13", cfg.shard, h);
    rep.begin_history(h);
    let w = World::new(2 + rng.below(100) as u32, 16);
    let e = &w.env;
    // four accounts and, as a fifth party, the token contract's OWN address (it can hold, delegate and be
    // delegated to like anybody else; its timeline must not share anything with the total's)
    let n = 5;
    let mut u = w.accounts(n);
    let c: Address = match kind {
        Kind::Fungible => e.register(TokVotes, ()),
        Kind::ExFungible => e.register(examples::fungible_votes::ExampleContract, (u[0].clone(),)),
        Kind::Nft => e.register(NftVotes, ()),
    };
    u[n - 1] = c.clone();
    let u = u;
    e.mock_all_auths();
    let mut m = Model { n, units: vec![0; n], delegate: vec![None; n], timeline: vec![], nft_owner: BTreeMap::new() };
    rep.op(format!("deploy {} ledger={}", kind.name(), w.ledger()));
    // every past query ever made: (account or None for total, ledger, answer)
    let mut asked: Vec<(Option<usize>, u32, u128)> = vec![];
    let explicit_ids = kind == Kind::Nft && h % 2 == 1;
    let mut next_id: u32 = if h % 4 == 1 { 0 } else { u32::MAX - 4000 };
    let mut burnt: Vec<u32> = vec![];
    // answers remembered for the end-of-history re-query; beyond the cap one new answer in eight
    // replaces a remembered one, so that late ledgers are re-queried too
    let asked_cap: usize = cfg.pick(12_000, 40_000);
    let mut asked_seen: usize = 0;
    let mut checkpoint_ledgers: Vec<u32> = vec![];
    let q_votes = |a: usize, l: u32| -> Result<u128, Fail> { invoke(e, &c, "get_votes_at_checkpoint", args!(e, u[a], l)) };
    let q_total = |l: u32| -> Result<u128, Fail> { invoke(e, &c, "get_total_supply_at_checkpoint", args!(e, l)) };
    // before anything was ever minted: everything answers zero, now and for every past ledger
    {
        let t: u128 = invoke(e, &c, "get_total_supply", args!(e)).must("get_total_supply");
        rep.check("ref", t == 0, &format!("C13/ref/{}/deploy/get_total_supply", kind.name()), || format!("total supply of votes before the first mint is {t}"));
        for x in 0..n {
            let v: u128 = invoke(e, &c, "get_votes", args!(e, u[x])).must("get_votes");
            rep.check("ref", v == 0, &format!("C13/ref/{}/deploy/get_votes", kind.name()), || format!("votes of {x} before the first mint: {v}"));
        }
        let now = w.ledger();
        for l in [0u32, 1, now / 2, now.saturating_sub(1)] {
            if l < now {
                let r = q_total(l);
                rep.check("past", r == Ok(0), &format!("C13/past/{}/deploy/get_total_supply_at_checkpoint", kind.name()), || format!("past total at ledger {l} before the first mint: {r:?}"));
                let r = q_votes(rng.idx(n), l);
                rep.check("past", r == Ok(0), &format!("C13/past/{}/deploy/get_votes_at_checkpoint", kind.name()), || format!("past votes at ledger {l} before the first mint: {r:?}"));
            }
        }
    }
    for li in 0..ledgers {
        let cur = w.ledger();
        let nops = 1 + rng.idx(6);
        for oi in 0..nops {
            let a = rng.idx(n);
            let b = if rng.chance(1, 6) { a } else { rng.idx(n) };
            let k = rng.below(100);
            let bal = m.units[a] as i128;
            let amt = |rng: &mut Rng| -> i128 { *rng.pick(&[0i128, 1, 2, 7, 100, bal, bal / 2, bal + 1, 1 << 70, -1]) };
            let own_ids: Vec<u32> = m.nft_owner.iter().filter(|(_, o)| **o == a).map(|(i, _)| *i).collect();
            let id = if own_ids.is_empty() { 9999 } else { *rng.pick(&own_ids) };
            let op = if k < 25 || (li == 0 && oi == 0) {
                // NFT histories with explicit ids (odd history numbers) carry the chosen id in `a`: a fresh one
                // or one that was burnt. Never one that is owned right now: `Base::mint` documents that it
                // does not check and leaves that to the caller
                let nft_a = if explicit_ids {
                    match rng.below(8) {
                        1 if !burnt.is_empty() => burnt.swap_remove(rng.idx(burnt.len())) as i128,
                        _ => {
                            next_id += 1 + rng.below(3) as u32;
                            next_id as i128
                        }
                    }
                } else {
                    1
                };
                Op::Mint { to: a, a: if kind == Kind::Nft { nft_a } else if li == 0 && oi == 0 { amt(&mut rng).max(1) } else { amt(&mut rng) } }
            } else if k < 40 && kind != Kind::ExFungible {
                Op::Burn { from: a, a: if kind == Kind::Nft { 1 } else { amt(&mut rng) }, id }
            } else if k < 62 {
                Op::Transfer { from: a, to: b, a: if kind == Kind::Nft { 1 } else { amt(&mut rng) }, id }
            } else if k < 72 {
                // spender is the recipient, the holder, or a third party
                let sp = match rng.idx(4) {
                    0 => b,
                    1 => a,
                    _ => rng.idx(n),
                };
                Op::TransferFrom { sp, from: a, to: b, a: if kind == Kind::Nft { 1 } else { amt(&mut rng) }, id }
            } else if k < 76 && kind != Kind::ExFungible {
                Op::BurnFrom { sp: rng.idx(n), from: a, a: if kind == Kind::Nft { 1 } else { amt(&mut rng) }, id }
            } else {
                Op::Delegate { who: a, to: b }
            };
            let (f, av): (&str, SVec<Val>) = match (&op, kind) {
                (Op::Mint { to, a }, Kind::Nft) if explicit_ids => ("mint_id", args!(e, u[*to], *a as u32)),
                (Op::Mint { to, .. }, Kind::Nft) => ("mint_seq", args!(e, u[*to])),
                (Op::Mint { to, a }, _) => ("mint", args!(e, u[*to], *a)),
                (Op::Burn { from, id, .. }, Kind::Nft) => ("burn", args!(e, u[*from], *id)),
                (Op::Burn { from, a, .. }, _) => ("burn", args!(e, u[*from], *a)),
                (Op::Transfer { from, to, id, .. }, Kind::Nft) => ("transfer", args!(e, u[*from], u[*to], *id)),
                (Op::Transfer { from, to, a, .. }, _) => ("transfer", args!(e, u[*from], u[*to], *a)),
                (Op::Delegate { who, to }, _) => ("delegate", args!(e, u[*who], u[*to])),
                (Op::TransferFrom { sp, from, to, id, .. }, Kind::Nft) => ("transfer_from", args!(e, u[*sp], u[*from], u[*to], *id)),
                (Op::TransferFrom { sp, from, to, a, .. }, _) => ("transfer_from", args!(e, u[*sp], u[*from], u[*to], *a)),
                (Op::BurnFrom { sp, from, id, .. }, Kind::Nft) => ("burn_from", args!(e, u[*sp], u[*from], *id)),
                (Op::BurnFrom { sp, from, a, .. }, _) => ("burn_from", args!(e, u[*sp], u[*from], *a)),
            };
            // the approval the spender path needs (its own rules are C02 / C11's subject)
            if let Op::TransferFrom { sp, from, a, id, .. } | Op::BurnFrom { sp, from, a, id } = &op {
                e.mock_all_auths();
                let live = cur + 100;
                let _r: Result<Val, Fail> = if kind == Kind::Nft {
                    invoke(e, &c, "approve", args!(e, u[*from], u[*sp], *id, live))
                } else {
                    invoke(e, &c, "approve", args!(e, u[*from], u[*sp], *a, live))
                };
            }
            let want_ok = match (&op, kind) {
                (Op::Mint { .. }, Kind::Nft) => true,
                (Op::Mint { a, .. }, _) => *a >= 0,
                (Op::Burn { from, id, .. }, Kind::Nft) | (Op::Transfer { from, id, .. }, Kind::Nft) | (Op::TransferFrom { from, id, .. }, Kind::Nft) | (Op::BurnFrom { from, id, .. }, Kind::Nft) => m.nft_owner.get(id) == Some(from),
                (Op::Burn { from, a, .. }, _) | (Op::Transfer { from, a, .. }, _) | (Op::TransferFrom { from, a, .. }, _) | (Op::BurnFrom { from, a, .. }, _) => *a >= 0 && m.units[*from] as i128 >= *a,
                (Op::Delegate { who, to }, _) => m.delegate[*who] != Some(*to),
            };
            e.mock_all_auths();
            w.reset_budget();
            let got: Result<Val, Fail> = invoke(e, &c, f, av);
            rep.evaluations += 1;
            rep.op(format!("@{cur} {op:?} -> {}", tag(&got)));
            if let Err(Fail::Budget) = got {
                rep.count("budget_errors");
            }
            rep.count(&format!("{}:{}", f, tag(&got)));
            let shape = match &op {
                Op::Delegate { who, to } => {
                    if who == to {
                        "self"
                    } else if m.delegate[*to].is_some() && m.delegate[*to] != Some(*to) {
                        "chain"
                    } else {
                        "other"
                    }
                }
                Op::Transfer { from, to, .. } => match (m.delegate[*from].is_some(), m.delegate[*to].is_some(), from == to) {
                    (_, _, true) => "self-transfer",
                    (true, true, _) => "both-delegating",
                    (true, false, _) | (false, true, _) => "one-delegating",
                    _ => "none-delegating",
                },
                Op::TransferFrom { sp, from, to, .. } => match (sp == to, sp == from, from == to) {
                    (_, _, true) => "self-transfer",
                    (true, _, _) => "spender-is-recipient",
                    (_, true, _) => "spender-is-holder",
                    _ => "third-party-spender",
                },
                Op::Mint { to, .. } => if m.delegate[*to].is_some() { "delegating" } else { "not-delegating" },
                Op::Burn { from, .. } | Op::BurnFrom { from, .. } => if m.delegate[*from].is_some() { "delegating" } else { "not-delegating" },
            };
            rep.case(format!("{}/{f}/{shape}/ops-in-ledger={}/{}", kind.name(), oi.min(3), tag(&got)));
            rep.check("ref", got.is_ok() == want_ok, &format!("C13/ref/{}/{f}/outcome", kind.name()), || {
                format!("{op:?} at ledger {cur}: model expects ok={want_ok}, contract answered {got:?}; units {:?} delegates {:?}", m.units, m.delegate)
            });
            if got.is_ok() {
                match (&op, kind) {
                    (Op::Mint { to, .. }, Kind::Nft) => {
                        let id: u32 = <u32 as soroban_sdk::TryFromVal<_, Val>>::try_from_val(e, got.as_ref().unwrap()).unwrap();
                        m.nft_owner.insert(id, *to);
                        m.units[*to] += 1;
                    }
                    (Op::Mint { to, a }, _) => m.units[*to] += *a as u128,
                    (Op::Burn { from, id, .. }, Kind::Nft) | (Op::BurnFrom { from, id, .. }, Kind::Nft) => {
                        m.nft_owner.remove(id);
                        burnt.push(*id);
                        m.units[*from] -= 1;
                    }
                    (Op::Burn { from, a, .. }, _) | (Op::BurnFrom { from, a, .. }, _) => m.units[*from] -= *a as u128,
                    (Op::Transfer { from, to, id, .. }, Kind::Nft) | (Op::TransferFrom { from, to, id, .. }, Kind::Nft) => {
                        m.nft_owner.insert(*id, *to);
                        m.units[*from] -= 1;
                        m.units[*to] += 1;
                    }
                    (Op::Transfer { from, to, a, .. }, _) | (Op::TransferFrom { from, to, a, .. }, _) => {
                        m.units[*from] -= *a as u128;
                        m.units[*to] += *a as u128;
                    }
                    (Op::Delegate { who, to }, _) => m.delegate[*who] = Some(*to),
                }
                if checkpoint_ledgers.last() != Some(&cur) {
                    checkpoint_ledgers.push(cur);
                }
            }
            m.record(cur);
            // current values: votes, total, units == balance, delegates
            let mv = m.votes();
            for x in 0..n {
                let v: u128 = invoke(e, &c, "get_votes", args!(e, u[x])).must("get_votes");
                rep.check("ref", v == mv[x], &format!("C13/ref/{}/{f}/get_votes", kind.name()), || {
                    format!("after {op:?}: get_votes({x}) = {v}, sum of units of its delegators = {} (units {:?}, delegates {:?})", mv[x], m.units, m.delegate)
                });
                let units: u128 = e.as_contract(&c, || stellar_governance::votes::get_voting_units(e, &u[x]));
                let bal: u128 = if kind == Kind::Nft {
                    invoke::<u32>(e, &c, "balance", args!(e, u[x])).must("balance") as u128
                } else {
                    invoke::<i128>(e, &c, "balance", args!(e, u[x])).must("balance") as u128
                };
                rep.check("ref", units == bal && units == m.units[x], &format!("C13/ref/{}/{f}/units-vs-balance", kind.name()), || {
                    format!("after {op:?}: voting units of {x} = {units}, token balance {bal}, model {}", m.units[x])
                });
                let d: Option<Address> = invoke(e, &c, "get_delegate", args!(e, u[x])).must("get_delegate");
                let di = d.map(|a| u.iter().position(|y| *y == a).unwrap_or(usize::MAX));
                rep.check("ref", di == m.delegate[x], &format!("C13/ref/{}/{f}/get_delegate", kind.name()), || format!("get_delegate({x}) = {di:?}, model {:?}", m.delegate[x]));
            }
            let t: u128 = invoke(e, &c, "get_total_supply", args!(e)).must("get_total_supply");
            rep.check("ref", t == m.total(), &format!("C13/ref/{}/{f}/get_total_supply", kind.name()), || format!("after {op:?}: vote total supply {t}, sum of units {}", m.total()));
            rep.evaluations += (4 * n + 1) as u64;
            // the past as seen from INSIDE a ledger that has already been written to: the ledger just
            // closed and a few older ones (their answers must not be affected by this ledger's operations)
            if cur >= 1 {
                let mut ls: Vec<u32> = vec![cur - 1];
                if cur >= 2 {
                    ls.push(cur - 2);
                }
                for cl in checkpoint_ledgers.iter().rev().take(3) {
                    if *cl < cur {
                        ls.push(*cl);
                    }
                }
                if rng.chance(1, 2) {
                    ls.push(rng.below(cur as u64) as u32);
                }
                ls.sort();
                ls.dedup();
                for l in ls {
                    let (wv, wt) = m.at(l);
                    let x = rng.idx(n);
                    let gv = q_votes(x, l);
                    let gt = q_total(l);
                    rep.evaluations += 2;
                    rep.count_n("past_queries", 2);
                    rep.case(format!("{}/query-inside-written-ledger/{}", kind.name(), if l + 1 == cur { "just-closed" } else { "older" }));
                    rep.check("past", gv == Ok(wv[x]) && gt == Ok(wt), &format!("C13/past/{}/lookup-inside-a-written-ledger", kind.name()), || {
                        format!("inside ledger {cur} (already written to by {op:?}): votes of {x} at end of ledger {l} = {gv:?} (model {}), total = {gt:?} (model {wt})", wv[x])
                    });
                    if let Ok(v) = gv {
                        remember(&mut asked, &mut asked_seen, asked_cap, (Some(x), l, v));
                    }
                }
            }
            // lookups of the current and of a future ledger are refused
            if oi == 0 {
                for l in [cur, cur + 1, u32::MAX] {
                    let r1 = q_votes(a, l);
                    let r2 = q_total(l);
                    rep.check("future", r1.is_err() && r2.is_err(), &format!("C13/future/{}/lookup-of-current-or-future-ledger-answered", kind.name()), || {
                        format!("at ledger {cur}: get_votes_at_checkpoint(_, {l}) = {r1:?}, get_total_supply_at_checkpoint({l}) = {r2:?}")
                    });
                }
            }
        }
        // close the ledger: move on by a gap, then interrogate the past
        let gap = *rng.pick(&[1u32, 1, 1, 2, 3, 10, 1000, 1_000_000]);
        w.set_ledger(cur + gap);
        let now = w.ledger();
        let mut ls: Vec<u32> = vec![0, now - 1, cur, cur.saturating_sub(1)];
        for cl in checkpoint_ledgers.iter().rev().take(12) {
            ls.extend([cl.saturating_sub(1), *cl, cl + 1]);
        }
        for _ in 0..8 {
            ls.push(rng.below(now as u64) as u32);
        }
        ls.retain(|l| *l < now);
        ls.sort();
        ls.dedup();
        for l in ls {
            let (wv, wt) = m.at(l);
            let pos = if m.timeline.first().map_or(true, |f| l < f.0) {
                "before-first"
            } else if checkpoint_ledgers.contains(&l) {
                "at-checkpoint"
            } else if m.timeline.last().map_or(false, |x| l > x.0) {
                "after-last"
            } else {
                "between"
            };
            rep.case(format!("{}/query/{pos}", kind.name()));
            for x in 0..n {
                let got = q_votes(x, l);
                rep.evaluations += 1;
                rep.check("past", got == Ok(wv[x]), &format!("C13/past/{}/get_votes_at_checkpoint", kind.name()), || {
                    format!("at ledger {now}: votes of {x} at end of ledger {l} = {got:?}, model {} (timeline ledgers {:?})", wv[x], m.timeline.iter().map(|t| t.0).collect::<Vec<_>>())
                });
                if let Ok(v) = got {
                    remember(&mut asked, &mut asked_seen, asked_cap, (Some(x), l, v));
                }
            }
            let got = q_total(l);
            rep.evaluations += 1;
            rep.check("past", got == Ok(wt), &format!("C13/past/{}/get_total_supply_at_checkpoint", kind.name()), || format!("at ledger {now}: total at end of ledger {l} = {got:?}, model {wt}"));
            if let Ok(v) = got {
                remember(&mut asked, &mut asked_seen, asked_cap, (None, l, v));
            }
            rep.count_n("past_queries", n as u64 + 1);
        }
    }
    // LOG: immutability of the past — every answer ever given is given again
    for (who, l, v) in asked.iter() {
        let again = match who {
            Some(x) => q_votes(*x, *l),
            None => q_total(*l),
        };
        rep.evaluations += 1;
        rep.check("immutable", again == Ok(*v), &format!("C13/immutable/{}/answer-about-the-past-changed", kind.name()), || {
            format!("query ({who:?}, ledger {l}) answered {v} earlier and {again:?} at the end of the history (ledger {})", w.ledger())
        });
    }
    rep.count_n("requeried", asked.len() as u64);
    rep.end_history();
}

pub fn run(cfg: &Cfg, rep: &mut Report) {
    rep.rule = "Seeded histories on the fungible-votes example, a votes wrapper with burn, and an NFT-votes wrapper (sequential ids in even histories; in odd ones ids chosen by the caller, low or near u32::MAX, also ids that were burnt; never a live one - Base::mint leaves that to the caller): 1-6 operations (mint/burn/transfer incl. self and full balance/transfer_from and burn_from with the spender being the recipient, the holder or a third party/delegate/re-delegate/self-delegate by 4 accounts and the token contract's own address) per ledger, gaps of {1,2,3,10,1000,10^6} ledgers; at every ledger close every account and the total are queried at {0, now-1, each recent checkpoint ledger -1/+0/+1, 8 random past ledgers}; all answers are re-queried at the end. Distinct case = (token, op, delegation shape, position of the op inside its ledger, outcome) and (token, query position {before first, at checkpoint, between, after last}).".into();
    let nh = cfg.pick(4u64, 40);
    let ledgers = cfg.pick(40usize, 90);
    for (ki, kind) in [Kind::Fungible, Kind::ExFungible, Kind::Nft].iter().enumerate() {
        for k in 0..nh {
            let h = ki as u64 * 1000 + k;
            if cfg.runs(h) {
                history(cfg, rep, *kind, h, ledgers);
            }
        }
    }
    rep.floor_on("past_queries", 10_000, &["past_queries"]);
    rep.floor_on("requeried", 1_000, &["requeried"]);
    rep.floor_on("delegations", 50, &["delegate:ok"]);
}
