//! C15 — an RWA identity is verified only by valid claims from currently trusted issuers.
//! REF iff-oracle for `verify_identity` and for the helper-built issuer's `is_claim_valid`, over
//! registries produced by edit histories and claims carrying REAL signatures of all three schemes.
use crate::args;
use crate::contracts::identity::{CtiC, IdentityC, IrsC, IssuerC, ScriptIssuer, VerifierC, ED25519, SECP256K1, SECP256R1};
use crate::report::Report;
use crate::rng::Rng;
use crate::world::{Must, invoke, tag, Fail, World};
use crate::Cfg;
use k256::elliptic_curve::sec1::ToEncodedPoint;
use p256::ecdsa::signature::hazmat::PrehashSigner;
use sha2::Digest;
use soroban_sdk::xdr::ToXdr;
use soroban_sdk::{Address, Bytes, BytesN, Env, Map, String as SString, Val, Vec as SVec};
use std::collections::{BTreeMap, BTreeSet};
use stellar_tokens::rwa::identity_registry_storage::{CountryData, CountryRelation, IdentityType, IndividualCountryRelation};

const SCHEMES: [u32; 3] = [ED25519, SECP256R1, SECP256K1];

struct Key {
    scheme: u32,
    ed: Option<ed25519_dalek::SigningKey>,
    r1: Option<p256::ecdsa::SigningKey>,
    k1: Option<k256::ecdsa::SigningKey>,
}

impl Key {
    fn new(rng: &mut Rng, scheme: u32) -> Key {
        let mut k = Key { scheme, ed: None, r1: None, k1: None };
        loop {
            let b: [u8; 32] = rng.bytes();
            match scheme {
                ED25519 => {
                    k.ed = Some(ed25519_dalek::SigningKey::from_bytes(&b));
                    return k;
                }
                SECP256R1 => {
                    if let Ok(s) = p256::ecdsa::SigningKey::from_slice(&b) {
                        k.r1 = Some(s);
                        return k;
                    }
                }
                _ => {
                    if let Ok(s) = k256::ecdsa::SigningKey::from_slice(&b) {
                        k.k1 = Some(s);
                        return k;
                    }
                }
            }
        }
    }
    fn public(&self) -> Vec<u8> {
        match self.scheme {
            ED25519 => self.ed.as_ref().unwrap().verifying_key().to_bytes().to_vec(),
            SECP256R1 => self.r1.as_ref().unwrap().verifying_key().to_encoded_point(false).as_bytes().to_vec(),
            _ => self.k1.as_ref().unwrap().verifying_key().to_encoded_point(false).as_bytes().to_vec(),
        }
    }
    /// sig_data exactly as the helper verifiers parse it
    fn sign(&self, message: &[u8]) -> Vec<u8> {
        let mut out = self.public();
        match self.scheme {
            ED25519 => {
                use ed25519_dalek::Signer as _;
                out.extend_from_slice(&self.ed.as_ref().unwrap().sign(message).to_bytes());
            }
            SECP256R1 => {
                let digest = sha2::Sha256::digest(message);
                let sig: p256::ecdsa::Signature = self.r1.as_ref().unwrap().sign_prehash(&digest).unwrap();
                let sig = sig.normalize_s().unwrap_or(sig);
                out.extend_from_slice(&sig.to_bytes());
            }
            _ => {
                let digest = sha3::Keccak256::digest(message);
                let (sig, rid) = self.k1.as_ref().unwrap().sign_prehash_recoverable(&digest).unwrap();
                out.extend_from_slice(&sig.to_bytes());
                out.extend_from_slice(&(rid.to_byte() as u32).to_be_bytes());
            }
        }
        out
    }
}

#[derive(Clone, Debug)]
struct ClaimRec {
    key: usize, // index into keys of the issuer
    nonce: u32,
    valid_until: u64,
    data: Vec<u8>,
}

fn claim_message(e: &Env, issuer: &Address, identity: &Address, topic: u32, nonce: u32, data: &[u8]) -> Vec<u8> {
    let mut m: Vec<u8> = e.ledger().network_id().to_array().to_vec();
    for b in issuer.clone().to_xdr(e).iter() {
        m.push(b);
    }
    for b in identity.clone().to_xdr(e).iter() {
        m.push(b);
    }
    m.extend_from_slice(&topic.to_be_bytes());
    m.extend_from_slice(&nonce.to_be_bytes());
    m.extend_from_slice(data);
    m
}

/// The identity contract belongs to the investor, not to the token: one that claims to hold whatever it is
/// asked about and serves a genuine claim about ANOTHER topic (or of another issuer) must not get its
/// holder verified. Only when the served record really is a valid claim of a trusted issuer for the
/// required topic does verification pass.
fn lying_identity(cfg: &Cfg, rep: &mut Report) {
    use crate::contracts::identity::LyingIdentity;
    use stellar_tokens::rwa::identity_claims::{generate_claim_id, Claim};
    for k in 0..6u64 {
        let h = 70_000 + k;
        if h % cfg.nshards as u64 != cfg.shard as u64 || !cfg.runs(h) {
            continue;
        }
        let mut rng = Rng::for_history(cfg.seed, "C15", cfg.shard, h);
        rep.begin_history(h);
        let w = World::new(100, 16);
        let e = &w.env;
        e.mock_all_auths();
        let cti = e.register(CtiC, ());
        let irs = e.register(IrsC, ());
        let verifier = e.register(VerifierC, (cti.clone(), irs.clone()));
        let issuers: Vec<Address> = (0..2).map(|_| e.register(IssuerC, ())).collect();
        let key = Key::new(&mut rng, SCHEMES[(k % 3) as usize]);
        let liar = e.register(LyingIdentity, ());
        let account = w.account();
        let countries: SVec<CountryData> = SVec::from_array(e, [CountryData { country: CountryRelation::Individual(IndividualCountryRelation::Residence(840)), metadata: None }]);
        invoke::<()>(e, &irs, "add_identity", args!(e, account.clone(), liar.clone(), IdentityType::Individual, countries)).expect("add_identity");
        let ts: u64 = 1_700_000_000;
        w.set_time(ts);
        // required: topic 1, trusted issuer I0 (which may also sign topic 2); I1 is trusted for nothing
        // (keys can only be allowed while the issuer is registered for the topic: wire everything up first,
        // then take away what the token no longer asks for)
        for t in [1u32, 2] {
            invoke::<()>(e, &cti, "add_claim_topic", args!(e, t)).unwrap();
        }
        for i in 0..2 {
            invoke::<()>(e, &cti, "add_trusted_issuer", args!(e, issuers[i], SVec::from_array(e, [1u32, 2]))).unwrap();
        }
        let pk = Bytes::from_slice(e, &key.public());
        for i in 0..2 {
            for t in [1u32, 2] {
                invoke::<()>(e, &issuers[i], "allow_key", args!(e, pk.clone(), cti.clone(), key.scheme, t)).expect("allow_key");
            }
        }
        invoke::<()>(e, &cti, "remove_trusted_issuer", args!(e, issuers[1])).unwrap();
        invoke::<()>(e, &cti, "remove_claim_topic", args!(e, 2u32)).unwrap();
        // the record served: (signed topic, signing issuer); only (1, I0) is what the token asks for
        let shapes: [(&str, u32, usize, bool); 4] = [("claim-about-another-topic", 2, 0, false), ("claim-of-an-untrusted-issuer", 1, 1, false), ("other-topic-and-untrusted-issuer", 2, 1, false), ("the-required-claim", 1, 0, true)];
        for (name, topic, is, genuine) in shapes {
            let mut data: Vec<u8> = (ts - 1).to_be_bytes().to_vec();
            data.extend_from_slice(&(ts + 1000).to_be_bytes());
            data.extend_from_slice(&rng.bytes::<4>());
            let msg = claim_message(e, &issuers[is], &liar, topic, 0, &data);
            let sig = key.sign(&msg);
            let rec = Claim { topic, scheme: key.scheme, issuer: issuers[is].clone(), signature: Bytes::from_slice(e, &sig), data: Bytes::from_slice(e, &data), uri: SString::from_str(e, "u") };
            // the issuer itself confirms the record for what it says (it IS a genuine claim about `topic`)
            let own: Result<(), Fail> = invoke(e, &issuers[is], "is_claim_valid", args!(e, liar.clone(), topic, key.scheme, rec.signature.clone(), rec.data.clone()));
            if own.is_err() {
                // (an issuer may stop confirming once the registry dropped it: then there is nothing to serve)
                rep.count("lying_identity_shapes_the_issuer_itself_refuses");
                rep.case(format!("lying-identity/scheme={}/{name}/issuer-refuses-its-own-claim", key.scheme));
                if genuine {
                    rep.check("ref", false, "C15/ref/lying-identity/setup", || format!("{name}: the trusted issuer does not confirm its own claim: {own:?}"));
                }
                continue;
            }
            // ids the liar says it holds: the ones the verifier will look for, for every issuer and topic
            let mut ids: SVec<BytesN<32>> = SVec::new(e);
            for i in 0..2 {
                for t in [1u32, 2] {
                    ids.push_back(e.as_contract(&liar, || generate_claim_id(e, &issuers[i], t)));
                }
            }
            invoke::<()>(e, &liar, "set", args!(e, ids, rec)).unwrap();
            let r: Result<(), Fail> = invoke(e, &verifier, "verify_identity", args!(e, account.clone()));
            rep.evaluations += 2;
            rep.op(format!("lying identity serves {name} -> verify_identity {}", tag(&r)));
            rep.case(format!("lying-identity/scheme={}/{name}/{}", key.scheme, tag(&r)));
            if genuine {
                rep.check("verify", r.is_ok(), "C15/verify/verify_identity/refused-although-every-topic-is-covered", || format!("{name}: {r:?}"));
            } else {
                rep.check("verify", r.is_err(), &format!("C15/verify/verify_identity/passed-on-{name}"), || format!("verify_identity passed for an identity contract that serves a {name} under the id of the required claim"));
            }
        }
        rep.count("lying_identity_histories");
        rep.end_history();
    }
}

/// `e2e`: C04's use of this engine - an RWA token wired to the real identity verifier is probed
/// (mint, transfer) after every step against the same iff-oracle; C15's own monitors are muted by
/// the caller in that mode.
pub fn history(cfg: &Cfg, rep: &mut Report, h: u64, steps: usize, e2e: bool) {
    let mut rng = Rng::for_history(cfg.seed, "C15", cfg.shard, h);
    rep.begin_history(h);
    let w = World::new(100, 16);
    let e = &w.env;
    e.mock_all_auths();
    let cti = e.register(CtiC, ());
    let irs = e.register(IrsC, ());
    let verifier = e.register(VerifierC, (cti.clone(), irs.clone()));
    // two verifiers that were not wired up completely: whatever the registries hold, they verify nobody
    let half_wired: [(&str, Address); 2] = [
        ("claim-topics-registry", e.register(VerifierC, (None::<Address>, Some(irs.clone())))),
        ("identity-registry", e.register(VerifierC, (Some(cti.clone()), None::<Address>))),
    ];
    let ni = 3;
    let mut issuers: Vec<Address> = (0..ni).map(|_| e.register(IssuerC, ())).collect();
    // issuer #3 is scripted (not built from the helpers): confirms, fails, or *returns* false
    const SI: usize = 3;
    issuers.push(e.register(ScriptIssuer, ()));
    let issuers = issuers;
    let mut script_mode: u32 = 0;
    // the registry as the edit history implies it: topic -> trusted issuers
    let mut mreg: BTreeMap<u32, BTreeSet<usize>> = BTreeMap::new();
    // issuers added and not removed since (an issuer stays trusted when its last topic goes)
    let mut trusted: BTreeSet<usize> = BTreeSet::new();
    let keys: Vec<Vec<Key>> = (0..ni).map(|_| SCHEMES.iter().map(|s| Key::new(&mut rng, *s)).collect()).collect();
    let nid = 3;
    let identities: Vec<Address> = (0..nid).map(|_| e.register(IdentityC, ())).collect();
    let accounts = w.accounts(nid + 1); // the last account has no identity
    let token: Option<Address> = if e2e {
        let comp = e.register(crate::contracts::rwa::MockCompliance, ());
        Some(e.register(crate::contracts::rwa::RwaTok, (comp, verifier.clone())))
    } else {
        None
    };
    let mut tbal: Vec<i128> = vec![0; nid + 1];
    let countries: SVec<CountryData> = SVec::from_array(e, [CountryData { country: CountryRelation::Individual(IndividualCountryRelation::Residence(840)), metadata: None }]);
    for i in 0..nid {
        invoke::<()>(e, &irs, "add_identity", args!(e, accounts[i], identities[i], IdentityType::Individual, countries.clone())).expect("add_identity");
    }
    // which identity contract an account is registered with (edited during the history)
    // recovery links the registry storage has recorded (old account -> new account)
    let mut recovered: BTreeMap<usize, usize> = BTreeMap::new();
    let mut shadow: BTreeSet<(usize, u32)> = BTreeSet::new();
    let mut ident_of: Vec<Option<usize>> = (0..=nid).map(|i| if i < nid { Some(i) } else { None }).collect();
    let topics_u: [u32; 4] = [1, 2, 3, 4];
    // model
    let mut allowed: BTreeSet<(usize, usize, u32)> = BTreeSet::new(); // (issuer, key, topic)
    let mut nonce: BTreeMap<(usize, usize, u32), u32> = BTreeMap::new(); // (issuer, identity, topic)
    let mut revoked: BTreeSet<(usize, usize, u32, Vec<u8>)> = BTreeSet::new();
    let mut held: BTreeMap<(usize, usize, u32), ClaimRec> = BTreeMap::new(); // (identity, issuer, topic)
    let mut ts: u64 = 1_700_000_000;
    w.set_time(ts);
    rep.op(format!("deploy identity stack: {ni} issuers x 3 schemes, {nid} identities, ts={ts}"));
    // registry as the contract reports it (its set/map behaviour is C20's subject)
    let registry = |w: &World| -> BTreeMap<u32, Vec<usize>> {
        let m: Map<u32, SVec<Address>> = invoke(&w.env, &cti, "get_claim_topics_and_issuers", args!(&w.env)).must("get_claim_topics_and_issuers");
        m.iter().map(|(t, is)| (t, is.iter().map(|a| issuers.iter().position(|x| *x == a).unwrap_or(usize::MAX)).collect())).collect()
    };
    // warm-up: a populated registry with allowed keys, so that genuine claims can exist
    {
        for t in [1u32, 2, 3] {
            invoke::<()>(e, &cti, "add_claim_topic", args!(e, t)).unwrap();
        }
        let t12: SVec<u32> = SVec::from_array(e, [1u32, 2]);
        let t123: SVec<u32> = SVec::from_array(e, [1u32, 2, 3]);
        invoke::<()>(e, &cti, "add_trusted_issuer", args!(e, issuers[0], t123)).unwrap();
        invoke::<()>(e, &cti, "add_trusted_issuer", args!(e, issuers[1], t12)).unwrap();
        trusted.insert(0);
        trusted.insert(1);
        mreg.insert(1, [0usize, 1].into_iter().collect());
        mreg.insert(2, [0usize, 1].into_iter().collect());
        mreg.insert(3, [0usize].into_iter().collect());
        for (ii, ts_) in [(0usize, vec![1u32, 2, 3]), (1usize, vec![1u32, 2])] {
            for t in ts_ {
                for ki in 0..3 {
                    if rng.chance(2, 3) {
                        let pk = Bytes::from_slice(e, &keys[ii][ki].public());
                        if invoke::<()>(e, &issuers[ii], "allow_key", args!(e, pk, cti.clone(), keys[ii][ki].scheme, t)).is_ok() {
                            allowed.insert((ii, ki, t));
                        }
                    }
                }
            }
        }
        rep.op(format!("warm-up: topics 1,2,3; I0 trusted for 1,2,3; I1 for 1,2; allowed keys {allowed:?}"));
    }
    for step in 0..steps {
        // (rarely) the ledger jumps far beyond every lifetime extension: nothing registered may lapse
        if rng.chance(1, 40) {
            w.set_ledger(w.ledger() + 600_000);
            rep.count("ledger_jumps");
        }
        let k = rng.below(100);
        let mut ii = rng.idx(ni);
        let idi = rng.idx(nid);
        let mut t = *rng.pick(&topics_u);
        // claims are mostly built for (issuer, topic) pairs that do have an allowed key
        let mut forced_key: Option<usize> = None;
        if k >= 60 && !allowed.is_empty() && rng.chance(4, 5) {
            let cand: Vec<&(usize, usize, u32)> = allowed.iter().collect();
            let (i2, k2, t2) = **rng.pick(&cand);
            ii = i2;
            t = t2;
            forced_key = Some(k2);
        }
        let reg = registry(&w);
        // registry edits also concern the scripted issuer
        let ri = if rng.chance(1, 4) { SI } else { ii };
        if k < 8 {
            let r: Result<(), Fail> = invoke(e, &cti, "add_claim_topic", args!(e, t));
            rep.op(format!("#{step} cti.add_claim_topic({t}) -> {}", tag(&r)));
            if r.is_ok() {
                mreg.insert(t, BTreeSet::new());
            }
        } else if k < 11 {
            let r: Result<(), Fail> = invoke(e, &cti, "remove_claim_topic", args!(e, t));
            rep.op(format!("#{step} cti.remove_claim_topic({t}) -> {}", tag(&r)));
            if r.is_ok() {
                mreg.remove(&t);
            }
        } else if k < 21 {
            let mut tv: SVec<u32> = SVec::new(e);
            for x in reg.keys() {
                if rng.chance(1, 2) {
                    tv.push_back(*x);
                }
            }
            let f = if rng.chance(2, 3) { "add_trusted_issuer" } else { "update_issuer_claim_topics" };
            let r: Result<(), Fail> = invoke(e, &cti, f, args!(e, issuers[ri], tv.clone()));
            rep.op(format!("#{step} cti.{f}(I{ri}, {tv:?}) -> {}", tag(&r)));
            if r.is_ok() {
                // only a currently trusted issuer can have its topics changed, only a new one can be added
                let was = trusted.contains(&ri);
                if f == "update_issuer_claim_topics" {
                    rep.check("registry", was, "C15/registry/update_issuer_claim_topics/accepted-for-an-issuer-that-is-not-trusted", || format!("update_issuer_claim_topics(I{ri}, {tv:?}) succeeded although I{ri} is not (or no longer) a trusted issuer; trusted: {trusted:?}"));
                } else {
                    rep.check("registry", !was, "C15/registry/add_trusted_issuer/accepted-twice", || format!("add_trusted_issuer(I{ri}) succeeded although it is trusted already"));
                }
                trusted.insert(ri);
                if f == "update_issuer_claim_topics" {
                    for is in mreg.values_mut() {
                        is.remove(&ri);
                    }
                }
                for x in tv.iter() {
                    mreg.entry(x).or_default().insert(ri);
                }
            }
        } else if k < 24 {
            let r: Result<(), Fail> = invoke(e, &cti, "remove_trusted_issuer", args!(e, issuers[ri]));
            rep.op(format!("#{step} cti.remove_trusted_issuer(I{ri}) -> {}", tag(&r)));
            if r.is_ok() {
                rep.check("registry", trusted.contains(&ri), "C15/registry/remove_trusted_issuer/accepted-for-an-issuer-that-is-not-trusted", || format!("remove_trusted_issuer(I{ri}) succeeded although it is not trusted; trusted: {trusted:?}"));
                trusted.remove(&ri);
                for is in mreg.values_mut() {
                    is.remove(&ri);
                }
            }
        } else if k < 27 {
            // the scripted issuer changes its mind
            script_mode = rng.below(3) as u32;
            invoke::<()>(e, &issuers[SI], "set_mode", args!(e, script_mode)).expect("set_mode");
            rep.op(format!("#{step} scripted issuer I{SI} now {}", ["confirms", "rejects by failing", "rejects by returning false"][script_mode as usize]));
        } else if k < 30 {
            // a claim issued by the scripted issuer: stored iff it confirms at this moment
            let data: [u8; 8] = rng.bytes();
            let sig: [u8; 64] = rng.bytes();
            let r: Result<BytesN<32>, Fail> = invoke(e, &identities[idi], "add_claim", args!(e, t, ED25519, issuers[SI], Bytes::from_slice(e, &sig), Bytes::from_slice(e, &data), SString::from_str(e, "u")));
            rep.evaluations += 1;
            rep.op(format!("#{step} ID{idi}.add_claim(topic {t}, scripted issuer I{SI} in mode {script_mode}) -> {}", tag(&r)));
            rep.case(format!("add_claim/scripted-issuer/mode={script_mode}/{}", tag(&r)));
            rep.check("claim", r.is_ok() == (script_mode == 0), "C15/claim/add_claim/scripted-issuer/outcome", || format!("add_claim with the scripted issuer in mode {script_mode} (0 confirms, 1 fails, 2 returns false): {r:?}"));
            if r.is_ok() {
                held.insert((idi, SI, t), ClaimRec { key: 0, nonce: 0, valid_until: u64::MAX, data: data.to_vec() });
            }
        } else if k < 40 && rng.chance(1, 6) {
            // a "shadow" registration: the bytes of the issuer's Ed25519 key under ANOTHER scheme number. It
            // can sign nothing, but it lives in the same lists; adding or removing it must not touch the
            // real key (a signing key is the pair of bytes and scheme)
            let pk = Bytes::from_slice(e, &keys[ii][0].public());
            if shadow.contains(&(ii, t)) {
                let r: Result<(), Fail> = invoke(e, &issuers[ii], "remove_key", args!(e, pk, cti.clone(), SECP256R1, t));
                rep.op(format!("#{step} I{ii}.remove_key(bytes of key 0 under scheme {SECP256R1}, topic {t}) -> {}", tag(&r)));
                if r.is_ok() {
                    shadow.remove(&(ii, t));
                }
            } else {
                let r: Result<(), Fail> = invoke(e, &issuers[ii], "allow_key", args!(e, pk, cti.clone(), SECP256R1, t));
                rep.op(format!("#{step} I{ii}.allow_key(bytes of key 0 under scheme {SECP256R1}, topic {t}) -> {}", tag(&r)));
                if r.is_ok() {
                    shadow.insert((ii, t));
                }
            }
            rep.count("shadow_key_edits");
        } else if k < 40 {
            // allow a key for a topic the issuer is trusted for (allow_key itself checks that)
            let ki = rng.idx(3);
            let pk = Bytes::from_slice(e, &keys[ii][ki].public());
            let r: Result<(), Fail> = invoke(e, &issuers[ii], "allow_key", args!(e, pk, cti.clone(), keys[ii][ki].scheme, t));
            rep.op(format!("#{step} I{ii}.allow_key(key {ki}, topic {t}) -> {}", tag(&r)));
            if r.is_ok() {
                allowed.insert((ii, ki, t));
            }
        } else if k < 45 {
            let cand: Vec<&(usize, usize, u32)> = allowed.iter().collect();
            if cand.is_empty() {
                continue;
            }
            let (i2, ki, t2) = **rng.pick(&cand);
            let pk = Bytes::from_slice(e, &keys[i2][ki].public());
            let r: Result<(), Fail> = invoke(e, &issuers[i2], "remove_key", args!(e, pk, cti.clone(), keys[i2][ki].scheme, t2));
            rep.op(format!("#{step} I{i2}.remove_key(key {ki}, topic {t2}) -> {}", tag(&r)));
            if r.is_ok() {
                allowed.remove(&(i2, ki, t2));
            }
        } else if k < 49 {
            let r: Result<(), Fail> = invoke(e, &issuers[ii], "invalidate", args!(e, identities[idi], t));
            rep.op(format!("#{step} I{ii}.invalidate(ID{idi}, topic {t}) -> {}", tag(&r)));
            if r.is_ok() {
                *nonce.entry((ii, idi, t)).or_insert(0) += 1;
            }
        } else if k < 54 {
            // revoke / un-revoke a held claim's data
            let cand: Vec<(&(usize, usize, u32), &ClaimRec)> = held.iter().collect();
            if cand.is_empty() {
                continue;
            }
            let ((id2, i2, t2), rec) = *rng.pick(&cand);
            if *i2 == SI {
                continue;
            }
            let rv = rng.chance(3, 4);
            let r: Result<(), Fail> = invoke(e, &issuers[*i2], "set_revoked", args!(e, identities[*id2], *t2, Bytes::from_slice(e, &rec.data), rv));
            rep.op(format!("#{step} I{i2}.set_revoked(ID{id2}, topic {t2}, {rv}) -> {}", tag(&r)));
            if r.is_ok() {
                let key = (*i2, *id2, *t2, rec.data.clone());
                if rv {
                    revoked.insert(key);
                } else {
                    revoked.remove(&key);
                }
            }
        } else if k < 56 {
            // an identity drops one of its claims (and may add it again later)
            let cand: Vec<(usize, usize, u32)> = held.keys().cloned().collect();
            if cand.is_empty() {
                continue;
            }
            let (id2, i2, t2) = *rng.pick(&cand);
            let mut d: Vec<u8> = vec![];
            for b in issuers[i2].clone().to_xdr(e).iter() {
                d.push(b);
            }
            d.extend_from_slice(&t2.to_be_bytes());
            let cid: [u8; 32] = sha3::Keccak256::digest(&d).into();
            let r: Result<(), Fail> = invoke(e, &identities[id2], "remove_claim", args!(e, BytesN::from_array(e, &cid)));
            rep.op(format!("#{step} ID{id2}.remove_claim(issuer I{i2}, topic {t2}) -> {}", tag(&r)));
            rep.count(&format!("remove_claim:{}", tag(&r)));
            rep.check("ref", r.is_ok(), "C15/ref/remove_claim/outcome", || format!("removing a held claim (ID{id2}, I{i2}, topic {t2}) was refused: {r:?}"));
            if r.is_ok() {
                held.remove(&(id2, i2, t2));
            }
        } else if k < 60 && k >= 58 {
            // the account -> identity link itself changes: re-pointed to another identity contract (two
            // accounts may then share one), removed, registered again, or recovered to another account
            let a = rng.idx(accounts.len());
            let j = rng.idx(nid);
            match (ident_of[a], rng.below(4)) {
                (Some(_), 0) => {
                    let r: Result<(), Fail> = invoke(e, &irs, "modify_identity", args!(e, accounts[a], identities[j]));
                    rep.op(format!("#{step} irs.modify_identity(account {a} -> ID{j}) -> {}", tag(&r)));
                    if r.is_ok() {
                        ident_of[a] = Some(j);
                    }
                }
                (Some(_), 1) => {
                    let r: Result<(), Fail> = invoke(e, &irs, "remove_identity", args!(e, accounts[a]));
                    rep.op(format!("#{step} irs.remove_identity(account {a}) -> {}", tag(&r)));
                    if r.is_ok() {
                        ident_of[a] = None;
                    }
                }
                (Some(idn), _) => {
                    let b = rng.idx(accounts.len());
                    let r: Result<(), Fail> = invoke(e, &irs, "recover_identity", args!(e, accounts[a], accounts[b]));
                    rep.op(format!("#{step} irs.recover_identity(account {a} -> account {b}) -> {}", tag(&r)));
                    if r.is_ok() {
                        ident_of[a] = None;
                        ident_of[b] = Some(idn);
                        recovered.insert(a, b);
                    }
                }
                (None, _) => {
                    let r: Result<(), Fail> = invoke(e, &irs, "add_identity", args!(e, accounts[a], identities[j], IdentityType::Individual, countries.clone()));
                    rep.op(format!("#{step} irs.add_identity(account {a}, ID{j}) -> {}", tag(&r)));
                    if r.is_ok() {
                        ident_of[a] = Some(j);
                    }
                }
            }
            rep.count("identity_link_edits");
        } else if k < 58 {
            let adv = *rng.pick(&[1u64, 50, 99, 100, 101, 1_000_000]);
            ts += adv;
            w.set_time(ts);
            rep.op(format!("#{step} time += {adv} -> {ts}"));
        } else {
            // add a claim: genuine or defective in exactly one respect
            let ki = forced_key.unwrap_or_else(|| rng.idx(3));
            let key = &keys[ii][ki];
            let cur_nonce = *nonce.get(&(ii, idi, t)).unwrap_or(&0);
            let mut vu = ts + *rng.pick(&[1u64, 100, 100, 1_000_000_000]);
            let mut data: Vec<u8> = (ts - 1).to_be_bytes().to_vec();
            data.extend_from_slice(&vu.to_be_bytes());
            data.extend_from_slice(&rng.bytes::<4>());
            // one time in three the claim carries the SAME data as a claim this identity already holds from
            // this issuer for another topic: revoking one of the two must not touch the other
            if rng.chance(1, 3) {
                if let Some((_, rec)) = held.iter().find(|((i2, s2, t2), rec)| *i2 == idi && *s2 == ii && *t2 != t && rec.valid_until > ts) {
                    data = rec.data.clone();
                    vu = rec.valid_until;
                    rep.count("claims_sharing_data_across_topics");
                }
            }
            // the library's own encoder of the recommended layout agrees with the bytes built here, and refuses
            // an expiry that is not later than the creation time
            if data.len() == 20 {
                use stellar_tokens::rwa::claim_issuer::{decode_claim_data_expiration, encode_claim_data_expiration};
                let created = u64::from_be_bytes(data[..8].try_into().unwrap());
                let tail = Bytes::from_slice(e, &data[16..]);
                let enc = std::panic::catch_unwind(std::panic::AssertUnwindSafe(|| encode_claim_data_expiration(e, created, vu, &tail)));
                let same = matches!(&enc, Ok(b) if b.iter().collect::<Vec<u8>>() == data);
                rep.check("encode", same, "C15/diff/encode_claim_data_expiration/differs-from-documented-layout", || format!("created_at {} valid_until {vu} tail {:?}: library gives {:?}, the documented layout is {data:?}", created, &data[16..], enc.as_ref().map(|b| b.iter().collect::<Vec<u8>>()).map_err(|_| crate::last_panic())));
                let dec = std::panic::catch_unwind(std::panic::AssertUnwindSafe(|| decode_claim_data_expiration(e, &Bytes::from_slice(e, &data))));
                let ok = matches!(&dec, Ok((c, v, d)) if *c == created && *v == vu && d.iter().collect::<Vec<u8>>() == data[16..]);
                rep.check("encode", ok, "C15/diff/decode_claim_data_expiration/differs-from-documented-layout", || format!("decoding {data:?}: {:?}", dec.as_ref().map(|(c, v, d)| (*c, *v, d.iter().collect::<Vec<u8>>())).map_err(|_| crate::last_panic())));
                let bad_vu = if rng.chance(1, 2) { created } else { rng.below(created) };
                let bad = std::panic::catch_unwind(std::panic::AssertUnwindSafe(|| encode_claim_data_expiration(e, created, bad_vu, &tail)));
                rep.check("encode", bad.is_err(), "C15/diff/encode_claim_data_expiration/accepted-expiry-not-after-creation", || format!("created_at {} valid_until {bad_vu} was encoded", created));
                rep.count("claim_data_encodings_compared");
            }
            let defect = if rng.chance(1, 2) { 0 } else { 1 + rng.below(11) };
            let (mt, mid, mis, mn) = match defect {
                1 => (t + 1, idi, ii, cur_nonce),
                2 => (t, (idi + 1) % nid, ii, cur_nonce),
                3 => (t, idi, (ii + 1) % ni, cur_nonce),
                4 => (t, idi, ii, cur_nonce + 1),
                _ => (t, idi, ii, cur_nonce),
            };
            let msg = claim_message(e, &issuers[mis], &identities[mid], mt, mn, &data);
            let mut sig = key.sign(&msg);
            let mut send_data = data.clone();
            let mut scheme = key.scheme;
            match defect {
                5 => {
                    let n = send_data.len();
                    send_data[n - 1] ^= 1; // data changed after signing
                }
                6 => {
                    let n = sig.len();
                    sig[n - 10] ^= 0x40; // signature bit flipped
                }
                7 => {
                    sig.pop(); // truncated signature data
                }
                8 => {
                    scheme = SCHEMES[(ki + 1) % 3]; // announced under another scheme
                }
                9 => {
                    // already expired when presented
                    send_data = (ts - 10).to_be_bytes().to_vec();
                    send_data.extend_from_slice(&ts.to_be_bytes());
                    send_data.extend_from_slice(&[1, 2, 3, 4]);
                    let m2 = claim_message(e, &issuers[ii], &identities[idi], t, cur_nonce, &send_data);
                    sig = key.sign(&m2);
                }
                11 => {
                    // no room for the two time stamps: properly signed, but such data says nothing about its
                    // expiry and the issuer (which asks the library's `is_claim_expired`) cannot confirm it
                    send_data.truncate(*rng.pick(&[0usize, 1, 8, 15]));
                    let m2 = claim_message(e, &issuers[ii], &identities[idi], t, cur_nonce, &send_data);
                    sig = key.sign(&m2);
                }
                10 => {
                    // signed by a key of ANOTHER issuer (never allowed here)
                    let other = &keys[(ii + 1) % ni][ki];
                    sig = other.sign(&msg);
                }
                _ => {}
            }
            let key_ok = allowed.contains(&(ii, ki, t));
            let is_rev = revoked.contains(&(ii, idi, t, send_data.clone()));
            let want = defect == 0 && key_ok && !is_rev;
            let r: Result<BytesN<32>, Fail> = invoke(e, &identities[idi], "add_claim", args!(e, t, scheme, issuers[ii], Bytes::from_slice(e, &sig), Bytes::from_slice(e, &send_data), SString::from_str(e, "u")));
            rep.evaluations += 1;
            rep.op(format!("#{step} ID{idi}.add_claim(topic {t}, issuer I{ii}, key {ki}/scheme {scheme}, defect {defect}, key_allowed {key_ok}) -> {}", tag(&r)));
            rep.case(format!("add_claim/scheme={}/defect={defect}/key_allowed={key_ok}/revoked={is_rev}/{}", key.scheme, tag(&r)));
            rep.count(&format!("add_claim:{}", tag(&r)));
            if r.is_ok() {
                rep.check("claim", want, "C15/claim/add_claim/accepted-invalid-claim", || {
                    format!("add_claim accepted: topic {t}, issuer I{ii}, key {ki} (scheme {scheme}), defect kind {defect}, key allowed for topic: {key_ok}, revoked: {is_rev}")
                });
            }
            rep.check("ref", r.is_ok() == want, "C15/ref/add_claim/outcome", || format!("add_claim topic {t} issuer I{ii} key {ki} scheme {scheme} defect {defect} key_allowed {key_ok} revoked {is_rev}: expected ok={want}, got {r:?}"));
            if r.is_ok() {
                held.insert((idi, ii, t), ClaimRec { key: ki, nonce: cur_nonce, valid_until: vu, data: send_data });
            }
        }
        // ---------------- oracle: issuer validity of every held claim, then verify_identity ----------------
        // "currently trusted" comes from the edit history, not from the registry's own answer; the two
        // are compared as well (a registry that forgets a removal would otherwise vouch for itself)
        let reg_reported = registry(&w);
        let reg: BTreeMap<u32, Vec<usize>> = mreg.iter().map(|(t, is)| (*t, is.iter().cloned().collect())).collect();
        {
            let norm = |m: &BTreeMap<u32, Vec<usize>>| -> BTreeMap<u32, BTreeSet<usize>> { m.iter().map(|(t, v)| (*t, v.iter().cloned().collect())).collect() };
            let (a, b) = (norm(&reg_reported), norm(&reg));
            rep.check("registry", a == b, "C15/registry/trusted-issuers-differ-from-edit-history", || format!("at step {step}: the registry reports topic -> issuers {a:?}, the edits so far imply {b:?}"));
        }
        let valid_now = |idx: usize, is: usize, tp: u32, rec: &ClaimRec| -> bool {
            if is == SI {
                return script_mode == 0;
            }
            allowed.contains(&(is, rec.key, tp)) && *nonce.get(&(is, idx, tp)).unwrap_or(&0) == rec.nonce && ts < rec.valid_until && !revoked.contains(&(is, idx, tp, rec.data.clone()))
        };
        if step % 3 == 0 {
            for ((idx, is, tp), rec) in held.iter() {
                if *is == SI {
                    continue;
                }
                let key = &keys[*is][rec.key];
                let msg = claim_message(e, &issuers[*is], &identities[*idx], *tp, rec.nonce, &rec.data);
                let sig = key.sign(&msg);
                let r: Result<(), Fail> = invoke(e, &issuers[*is], "is_claim_valid", args!(e, identities[*idx], *tp, key.scheme, Bytes::from_slice(e, &sig), Bytes::from_slice(e, &rec.data)));
                rep.evaluations += 1;
                let want = valid_now(*idx, *is, *tp, rec);
                let why = if !allowed.contains(&(*is, rec.key, *tp)) { "key-removed" } else if *nonce.get(&(*is, *idx, *tp)).unwrap_or(&0) != rec.nonce { "nonce-bumped" } else if ts >= rec.valid_until { "expired" } else if !want { "revoked" } else { "valid" };
                rep.case(format!("is_claim_valid/scheme={}/{why}/{}", key.scheme, tag(&r)));
                rep.check("claim", r.is_ok() == want, "C15/claim/is_claim_valid", || {
                    format!("issuer I{is} on claim (ID{idx}, topic {tp}, key {}, signed with nonce {}, valid_until {}): expected valid={want} ({why}; now ts {ts}, current nonce {:?}), issuer answered {r:?}", rec.key, rec.nonce, rec.valid_until, nonce.get(&(*is, *idx, *tp)))
                });
            }
        }
        if step % 8 == 0 {
            for (missing, v) in half_wired.iter() {
                for a in 0..accounts.len() {
                    let r: Result<(), Fail> = invoke(e, v, "verify_identity", args!(e, accounts[a]));
                    rep.evaluations += 1;
                    rep.case(format!("verify/verifier-without-{missing}/{}", tag(&r)));
                    rep.check("verify", r.is_err(), &format!("C15/verify/verify_identity/passed-on-a-verifier-without-{missing}"), || format!("verify_identity(account {a}) passed on a verifier whose {missing} was never set"));
                }
            }
        }
        let mut verdicts: Vec<bool> = vec![];
        for a in 0..accounts.len() {
            let r: Result<(), Fail> = invoke(e, &verifier, "verify_identity", args!(e, accounts[a]));
            rep.evaluations += 1;
            let mut want = ident_of[a].is_some();
            let mut why = String::from("ok");
            if ident_of[a].is_none() {
                why = "no-identity".into();
            } else {
                let idn = ident_of[a].unwrap();
                for (tp, is) in reg.iter() {
                    let ok = is.iter().any(|i| *i < issuers.len() && held.get(&(idn, *i, *tp)).map_or(false, |rec| valid_now(idn, *i, *tp, rec)));
                    if !ok {
                        want = false;
                        why = if is.is_empty() { format!("topic-{tp}-has-no-trusted-issuer") } else { format!("topic-{tp}-unsatisfied") };
                        break;
                    }
                }
            }
            let shape = format!("topics={}/issuers-per-topic={:?}", reg.len(), reg.values().map(|v| v.len().min(2)).collect::<Vec<_>>());
            rep.case(format!("verify/{shape}/{}/{}", if why.contains("no-trusted") { "zero-issuers" } else if want { "all-satisfied" } else { "unsatisfied" }, tag(&r)));
            rep.count(&format!("verify:{}", tag(&r)));
            if r.is_ok() {
                let sig = if why.contains("no-trusted-issuer") { "C15/verify/verify_identity/passed-with-required-topic-without-issuer" } else { "C15/verify/verify_identity/passed-without-valid-claim" };
                rep.check("verify", want, sig, || format!("verify_identity(account {a}) passed at step {step}; required topics and trusted issuers {reg:?}; reason it should fail: {why}; held claims {:?}", held.keys().filter(|k| Some(k.0) == ident_of[a]).collect::<Vec<_>>()));
            } else {
                rep.check("verify", !want, "C15/verify/verify_identity/refused-although-every-topic-is-covered", || format!("verify_identity(account {a}) refused ({r:?}) although every required topic {reg:?} has a valid claim from a trusted issuer"));
            }
            verdicts.push(want);
        }
        // ---------------- C04 end to end: the token's identity gate against the same oracle ----------------
        if let Some(tok) = &token {
            for a in 0..accounts.len() {
                if verdicts[a] || rng.chance(1, 2) {
                    let r: Result<(), Fail> = invoke(e, tok, "mint", args!(e, accounts[a], 3i128));
                    rep.evaluations += 1;
                    rep.op(format!("[{step}] token.mint(account {a}, 3) with oracle verified={} -> {}", verdicts[a], tag(&r)));
                    rep.case(format!("real-identity/mint/verified={}/{}", verdicts[a], tag(&r)));
                    if r.is_ok() {
                        tbal[a] += 3;
                        rep.count("e2e_mint_ok");
                        rep.check("gate", verdicts[a], "C04/gate/real-identity/mint/passed-with-unverified-recipient", || format!("mint to account {a} passed at step {step} although its identity is not verified: required topics and trusted issuers {reg:?}, held claims {:?}", held.keys().filter(|k| Some(k.0) == ident_of[a]).collect::<Vec<_>>()));
                    } else {
                        rep.check("ref", !verdicts[a], "C04/ref/real-identity/mint/refused-although-verified", || format!("mint to verified account {a} refused at step {step}: {r:?}"));
                    }
                }
            }
            for _ in 0..3 {
                let (mut a, mut b) = (rng.idx(accounts.len()), rng.idx(accounts.len()));
                // verified pairs are rare: prefer one when it exists, so that the gate is also seen open
                let ver: Vec<usize> = (0..accounts.len()).filter(|i| verdicts[*i]).collect();
                if ver.len() >= 2 && rng.chance(2, 3) {
                    a = *rng.pick(&ver);
                    b = *rng.pick(&ver);
                }
                if a == b || tbal[a] < 1 {
                    continue;
                }
                let r: Result<(), Fail> = invoke(e, tok, "transfer", args!(e, accounts[a], accounts[b], 1i128));
                rep.evaluations += 1;
                let both = verdicts[a] && verdicts[b];
                rep.op(format!("[{step}] token.transfer({a} -> {b}, 1) with oracle verified=({}, {}) -> {}", verdicts[a], verdicts[b], tag(&r)));
                rep.case(format!("real-identity/transfer/from={}/to={}/{}", verdicts[a], verdicts[b], tag(&r)));
                if r.is_ok() {
                    tbal[a] -= 1;
                    tbal[b] += 1;
                    rep.count("e2e_transfer_ok");
                    rep.check("gate", both, "C04/gate/real-identity/transfer/passed-with-unverified-party", || format!("transfer {a} -> {b} passed at step {step} with verified=({}, {}): required topics and trusted issuers {reg:?}", verdicts[a], verdicts[b]));
                } else {
                    rep.count("e2e_transfer_refused");
                    rep.check("ref", !both, "C04/ref/real-identity/transfer/refused-although-both-verified", || format!("transfer {a} -> {b} between verified accounts refused at step {step}: {r:?}"));
                }
            }
            // the allowance path is gated on the two parties just the same (the spender is not a party)
            {
                let (a, b, sp) = (rng.idx(accounts.len()), rng.idx(accounts.len()), rng.idx(accounts.len()));
                if a != b && tbal[a] >= 1 {
                    let _: Result<(), Fail> = invoke(e, tok, "approve", args!(e, accounts[a], accounts[sp], 1i128, e.ledger().sequence() + 100));
                    let r: Result<(), Fail> = invoke(e, tok, "transfer_from", args!(e, accounts[sp], accounts[a], accounts[b], 1i128));
                    rep.evaluations += 1;
                    let both = verdicts[a] && verdicts[b];
                    rep.op(format!("[{step}] token.transfer_from(spender {sp}, {a} -> {b}, 1) with oracle verified=({}, {}) -> {}", verdicts[a], verdicts[b], tag(&r)));
                    rep.case(format!("real-identity/transfer_from/from={}/to={}/{}", verdicts[a], verdicts[b], tag(&r)));
                    if r.is_ok() {
                        tbal[a] -= 1;
                        tbal[b] += 1;
                        rep.check("gate", both, "C04/gate/real-identity/transfer_from/passed-with-unverified-party", || format!("transfer_from {a} -> {b} (spender {sp}) passed at step {step} with verified=({}, {})", verdicts[a], verdicts[b]));
                    } else {
                        rep.check("ref", !both, "C04/ref/real-identity/transfer_from/refused-although-both-verified", || format!("transfer_from {a} -> {b} between verified accounts refused at step {step}: {r:?}"));
                    }
                }
            }
            // recovery: the whole balance moves to the target registered in the identity registry storage,
            // and to nobody else; the target must be verified
            {
                let (x, y) = if !recovered.is_empty() && rng.chance(2, 3) { let ks: Vec<(&usize, &usize)> = recovered.iter().collect(); let p = *rng.pick(&ks); (*p.0, *p.1) } else { (rng.idx(accounts.len()), rng.idx(accounts.len())) };
                let r: Result<bool, Fail> = invoke(e, tok, "recover_balance", args!(e, accounts[x], accounts[y]));
                rep.evaluations += 1;
                let linked = recovered.get(&x) == Some(&y);
                let want = linked && verdicts[y];
                rep.op(format!("[{step}] token.recover_balance({x} -> {y}) registered target: {:?}, target verified: {} -> {}", recovered.get(&x), verdicts[y], tag(&r)));
                rep.case(format!("real-identity/recover_balance/linked={linked}/target-verified={}/{}", verdicts[y], tag(&r)));
                if r.is_ok() {
                    rep.check("gate", linked, "C04/gate/real-identity/recover_balance/moved-to-unregistered-target", || format!("recover_balance({x} -> {y}) passed at step {step}; the registry storage links {x} to {:?}", recovered.get(&x)));
                    rep.check("gate", verdicts[y], "C04/gate/real-identity/recover_balance/target-not-verified", || format!("recover_balance({x} -> {y}) passed although account {y} is not verified"));
                    if x != y {
                        tbal[y] += tbal[x];
                        tbal[x] = 0;
                    }
                    rep.count("e2e_recover_ok");
                }
                rep.check("ref", r.is_ok() == want, "C04/ref/real-identity/recover_balance/outcome", || format!("recover_balance({x} -> {y}): registered target {:?}, target verified {}: expected ok={want}, got {r:?}", recovered.get(&x), verdicts[y]));
                for (i, acc) in accounts.iter().enumerate() {
                    let b: i128 = invoke(e, tok, "balance", args!(e, acc.clone())).must("balance");
                    rep.check("ref", b == tbal[i], "C04/ref/real-identity/balances", || format!("after step {step}: token balance of account {i} is {b}, movements that passed add up to {}", tbal[i]));
                }
            }
        }
    }
    rep.end_history();
}

pub fn run(cfg: &Cfg, rep: &mut Report) {
    rep.rule = "Seeded histories on the real stack (claim-topics-and-issuers, identity registry storage, identity claims, identity verifier, claim issuer assembled from the library helpers): registry edits (topics with several, one and ZERO issuers; removed and re-added topics and issuers; 'currently trusted' is taken from the edit history and compared with the registry's own answer), a fourth, scripted issuer that confirms, fails or RETURNS false, allow/remove key (also the bytes of a real key under another scheme number), claims of one identity sharing their data across topics, nonce bump, revoke/un-revoke, time advance past valid_until, add_claim with genuine or single-defect claims (wrong topic / identity / issuer / nonce in the signed message, data or signature altered, truncated, other scheme, expired, foreign key, data too short to carry its time stamps); the library's encoder / decoder of the claim-data layout against the bytes built here signed with real Ed25519 / P-256 / secp256k1 keys. The account -> identity link is edited too (modify / remove / add again / recover; two accounts may share one identity). An identity contract under its holder's control that serves a genuine claim about another topic / of an untrusted issuer under the id of the required one must not verify. After every step verify_identity for 4 accounts and (every 3rd step) is_claim_valid for every held claim are compared with the iff-oracle. Distinct case = (registry shape, verdict class, outcome) / (scheme, defect or invalidation kind, outcome).".into();
    lying_identity(cfg, rep);
    let nh = cfg.pick(16u64, 100);
    let steps = cfg.pick(120usize, 250);
    for k in 0..nh {
        if cfg.runs(k) {
            history(cfg, rep, k, steps, false);
        }
    }
    rep.floor_on("claims_added", 100, &["add_claim:ok"]);
    rep.floor_on("verify_ok", 50, &["verify:ok"]);
}
