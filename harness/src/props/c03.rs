//! C03 — smart-account authorization is sound and follows rule precedence.
//! REF: independent matcher (type-specific rules newest first, then Default newest first; expired
//! skipped; no policies => all rule signers present; policies => every can_enforce true; first match
//! wins). LOG: enforce calls == policies of the chosen rule, once per context, with the rule's
//! authenticated signers; verifier calls == supplied external signers with the exact payload.
use crate::args;
use crate::contracts::sa::{MockPolicy, MockVerifier, PolicyCall, VerifyCall};
use crate::contracts::timelock::CountTarget;
use crate::examples::msa_account::MultisigContract;
use crate::examples::threshold_policy::ThresholdPolicyContract;
use crate::report::Report;
use crate::rng::Rng;
use crate::world::{Must, invoke, tag, Fail, Inv, World};
use crate::Cfg;
use soroban_sdk::auth::{Context, ContractContext, ContractExecutable, CreateContractHostFnContext, CreateContractWithConstructorHostFnContext};
use soroban_sdk::xdr::{self, Limits, ScVal, ToXdr, WriteXdr};
use soroban_sdk::{Address, Bytes, BytesN, Env, IntoVal, Map, String as SString, Symbol, TryFromVal, Val, Vec as SVec};
use stellar_accounts::policies::simple_threshold::SimpleThresholdAccountParams;
use stellar_accounts::smart_account::{ContextRule, ContextRuleType, Signatures, Signer};
use std::collections::BTreeSet;

#[derive(Clone, Debug)]
struct MRule {
    id: u32,
    ctype: ContextRuleType,
    signers: Vec<Signer>,
    policies: Vec<Address>,
    valid_until: Option<u32>,
}

struct U<'a> {
    w: &'a World,
    account: Address,
    signers: Vec<Signer>, // 0..3 delegated, 3..6 external (mock verifier), 6..8 external (real ed25519 verifier)
    /// sixteen more signers (mock verifier) that no rule ever names: a signature map may carry more entries
    /// than any single rule may list
    crowd: Vec<Signer>,
    policies: Vec<Address>, // mock policies
    threshold_policy: Address,
    verifier: Address,
    /// a second mock verifier: signers 8..10 carry the SAME key bytes as signers 3 and 4 under it
    verifier2: Address,
    ed_verifier: Address,
    ed_keys: Vec<ed25519_dalek::SigningKey>,
    targets: Vec<Address>,
    wasms: Vec<BytesN<32>>,
}

fn all_types(u: &U) -> Vec<ContextRuleType> {
    let mut v = vec![ContextRuleType::Default];
    for t in &u.targets {
        v.push(ContextRuleType::CallContract(t.clone()));
    }
    v.push(ContextRuleType::CallContract(u.account.clone()));
    for w in &u.wasms {
        v.push(ContextRuleType::CreateContract(w.clone()));
    }
    v
}

/// The rule set as the account reports it (the registry itself is C20's subject).
fn read_rules(u: &U) -> Vec<MRule> {
    let e = &u.w.env;
    let mut out = vec![];
    for t in all_types(u) {
        let rs: SVec<ContextRule> = invoke(e, &u.account, "get_context_rules", args!(e, t.clone())).must("get_context_rules");
        for r in rs.iter() {
            out.push(MRule { id: r.id, ctype: r.context_type.clone(), signers: r.signers.iter().collect(), policies: r.policies.iter().collect(), valid_until: r.valid_until });
        }
    }
    out
}

fn ctx_type(c: &Context) -> ContextRuleType {
    match c.clone() {
        Context::Contract(ContractContext { contract, .. }) => ContextRuleType::CallContract(contract),
        Context::CreateContractHostFn(CreateContractHostFnContext { executable: ContractExecutable::Wasm(w), .. }) => ContextRuleType::CreateContract(w),
        Context::CreateContractWithCtorHostFn(CreateContractWithConstructorHostFnContext { executable: ContractExecutable::Wasm(w), .. }) => ContextRuleType::CreateContract(w),
    }
}

/// Reference matcher, written from the module documentation.
/// `script(policy, rule_id)` = scripted bits of a mock policy; the real threshold policy is evaluated by count.
fn matcher(rules: &[MRule], ctx: &Context, supplied: &[Signer], cur: u32, can: &dyn Fn(&Address, &MRule, &[Signer]) -> bool) -> Option<(MRule, Vec<Signer>)> {
    let t = ctx_type(ctx);
    let live = |r: &&MRule| r.valid_until.map_or(true, |v| v >= cur);
    let mut specific: Vec<&MRule> = rules.iter().filter(|r| r.ctype == t).filter(live).collect();
    let mut defaults: Vec<&MRule> = rules.iter().filter(|r| r.ctype == ContextRuleType::Default).filter(live).collect();
    specific.sort_by(|a, b| b.id.cmp(&a.id)); // newest first
    defaults.sort_by(|a, b| b.id.cmp(&a.id));
    for r in specific.into_iter().chain(defaults) {
        let auth: Vec<Signer> = r.signers.iter().filter(|s| supplied.contains(s)).cloned().collect();
        if r.policies.is_empty() {
            if auth.len() == r.signers.len() {
                return Some((r.clone(), auth));
            }
        } else if r.policies.iter().all(|p| can(p, r, &auth)) {
            return Some((r.clone(), auth));
        }
    }
    None
}

fn history(cfg: &Cfg, rep: &mut Report, h: u64, rounds: usize) {
    let mut rng = Rng::for_history(cfg.seed, "C03", cfg.shard, h);
    rep.begin_history(h);
    let w = World::new(100 + rng.below(50) as u32, 16);
    let e = &w.env;
    e.mock_all_auths();
    let verifier = e.register(MockVerifier, ());
    let ed_verifier = e.register(crate::examples::ed25519_verifier::Ed25519VerifierContract, ());
    let ed_keys: Vec<ed25519_dalek::SigningKey> = (0..2).map(|_| ed25519_dalek::SigningKey::from_bytes(&rng.bytes::<32>())).collect();
    let mut signers: Vec<Signer> = (0..3).map(|_| Signer::Delegated(w.account())).collect();
    for i in 0..3u8 {
        signers.push(Signer::External(verifier.clone(), Bytes::from_array(e, &[i + 1; 8])));
    }
    for k in &ed_keys {
        signers.push(Signer::External(ed_verifier.clone(), Bytes::from_array(e, &k.verifying_key().to_bytes())));
    }
    // aliases: equal key bytes under another verifier are different signers
    let verifier2 = e.register(MockVerifier, ());
    for i in 0..2u8 {
        signers.push(Signer::External(verifier2.clone(), Bytes::from_array(e, &[i + 1; 8])));
    }
    let policies: Vec<Address> = (0..3).map(|_| e.register(MockPolicy, ())).collect();
    let threshold_policy = e.register(ThresholdPolicyContract, ());
    let targets: Vec<Address> = (0..3).map(|_| e.register(CountTarget, ())).collect();
    let wasms: Vec<BytesN<32>> = (0..2u8).map(|i| BytesN::from_array(e, &[0xA0 + i; 32])).collect();
    // initial Default rule: first signer, no policies
    let init_signers: SVec<Signer> = SVec::from_array(e, [signers[0].clone()]);
    let no_pol: Map<Address, Val> = Map::new(e);
    let account = e.register(MultisigContract, (init_signers, no_pol));
    let crowd: Vec<Signer> = (0..16u8).map(|i| Signer::External(verifier.clone(), Bytes::from_array(e, &[100 + i; 8]))).collect();
    let u = U { w: &w, account: account.clone(), signers, crowd, policies, threshold_policy, verifier, verifier2, ed_verifier, ed_keys, targets, wasms };
    rep.op(format!("deploy multisig account ledger={}", w.ledger()));
    // scripts of the mock policies: (policy index, rule id) -> bits
    let mut scripts: std::collections::BTreeMap<(usize, u32), u32> = Default::default();
    let mut thresholds: std::collections::BTreeMap<u32, u32> = Default::default(); // rule id -> threshold (real policy)
    // expiry of every rule as the account was TOLD (add / update_valid_until), independent of what the
    // registry reports back: a rule that loses its expiry must not keep authorizing
    let mut vu_model: std::collections::BTreeMap<u32, Option<u32>> = Default::default();
    vu_model.insert(0, None);
    // the rule set as the edits that SUCCEEDED imply it: id -> (type, signers in order, policies); compared
    // with what the account reports after every batch of edits, so that a rule silently overwritten or
    // an edit reported as done but not applied does not let the account vouch for itself
    let mut emodel: std::collections::BTreeMap<u32, (ContextRuleType, Vec<Signer>, Vec<Address>)> = Default::default();
    emodel.insert(0, (ContextRuleType::Default, vec![u.signers[0].clone()], vec![]));
    let mut ever_ids: BTreeSet<u32> = [0u32].into_iter().collect();
    for round in 0..rounds {
        // ---------------- edit the rule set ----------------
        let rules = read_rules(&u);
        let cur = w.ledger();
        e.mock_all_auths();
        let nedits = 1 + rng.idx(3);
        for _ in 0..nedits {
            let rules = read_rules(&u);
            let k = rng.below(100);
            let pick_rule = |rng: &mut Rng| -> Option<MRule> { if rules.is_empty() { None } else { Some(rules[rng.idx(rules.len())].clone()) } };
            let desc: String;
            let r: Result<Val, Fail>;
            if k < 40 || rules.len() < 3 {
                let t = { let ts = all_types(&u); ts[if rng.chance(1, 3) { 0 } else { rng.idx(ts.len()) }].clone() };
                let ns = rng.idx(4);
                let mut sv: SVec<Signer> = SVec::new(e);
                let mut idxs: Vec<usize> = (0..u.signers.len()).collect();
                rng.shuffle(&mut idxs);
                for i in idxs.iter().take(ns) {
                    sv.push_back(u.signers[*i].clone());
                }
                let mut pm: Map<Address, Val> = Map::new(e);
                let np = if ns == 0 { 1 + rng.idx(2) } else { rng.idx(3) };
                let mut pidx: Vec<usize> = (0..3).collect();
                rng.shuffle(&mut pidx);
                for p in pidx.iter().take(np) {
                    pm.set(u.policies[*p].clone(), Val::VOID.to_val());
                }
                let mut thr = None;
                if ns >= 1 && rng.chance(1, 5) {
                    let tt = 1 + rng.below(ns as u64) as u32;
                    pm.set(u.threshold_policy.clone(), SimpleThresholdAccountParams { threshold: tt }.into_val(e));
                    thr = Some(tt);
                }
                let vu: Option<u32> = match rng.below(6) {
                    0 => Some(cur),
                    1 => Some(cur + 1),
                    2 => Some(cur + 2 + rng.below(20) as u32),
                    _ => None,
                };
                desc = format!("add_context_rule type={t:?} signers={ns} policies={} threshold={thr:?} valid_until={vu:?}", pm.len());
                r = invoke(e, &account, "add_context_rule", args!(e, t, SString::from_str(e, "r"), vu, sv, pm));
                if let Ok(v) = &r {
                    if let Ok(cr) = ContextRule::try_from_val(e, v) {
                        rep.check("registry", !ever_ids.contains(&cr.id), "C03/registry/rule-id-assigned-twice", || format!("add_context_rule returned id {} which an earlier rule already had (ids so far {ever_ids:?})", cr.id));
                        ever_ids.insert(cr.id);
                        emodel.insert(cr.id, (t.clone(), sv.iter().collect(), pm.keys().iter().collect()));
                        vu_model.insert(cr.id, vu);
                        if let Some(tt) = thr {
                            thresholds.insert(cr.id, tt);
                        }
                    }
                }
            } else if k < 52 {
                let Some(rl) = pick_rule(&mut rng) else { continue };
                desc = format!("remove_context_rule {}", rl.id);
                r = invoke(e, &account, "remove_context_rule", args!(e, rl.id));
                if r.is_ok() {
                    emodel.remove(&rl.id);
                }
            } else if k < 64 {
                let Some(rl) = pick_rule(&mut rng) else { continue };
                let s = rng.pick(&u.signers).clone();
                desc = format!("add_signer rule {}", rl.id);
                r = invoke(e, &account, "add_signer", args!(e, rl.id, s.clone()));
                if r.is_ok() {
                    if let Some(x) = emodel.get_mut(&rl.id) {
                        x.1.push(s.clone());
                    }
                }
            } else if k < 74 {
                let Some(rl) = pick_rule(&mut rng) else { continue };
                if rl.signers.is_empty() {
                    continue;
                }
                let s = rng.pick(&rl.signers).clone();
                desc = format!("remove_signer rule {}", rl.id);
                r = invoke(e, &account, "remove_signer", args!(e, rl.id, s.clone()));
                if r.is_ok() {
                    if let Some(x) = emodel.get_mut(&rl.id) {
                        x.1.retain(|y| *y != s);
                    }
                }
            } else if k < 82 {
                let Some(rl) = pick_rule(&mut rng) else { continue };
                let p = rng.pick(&u.policies).clone();
                desc = format!("add_policy rule {}", rl.id);
                r = invoke(e, &account, "add_policy", args!(e, rl.id, p.clone(), Val::VOID.to_val()));
                if r.is_ok() {
                    if let Some(x) = emodel.get_mut(&rl.id) {
                        x.2.push(p.clone());
                    }
                }
            } else if k < 88 {
                let Some(rl) = pick_rule(&mut rng) else { continue };
                if rl.policies.is_empty() {
                    continue;
                }
                let p = rng.pick(&rl.policies).clone();
                desc = format!("remove_policy rule {}", rl.id);
                r = invoke(e, &account, "remove_policy", args!(e, rl.id, p.clone()));
                if r.is_ok() {
                    if let Some(x) = emodel.get_mut(&rl.id) {
                        x.2.retain(|y| *y != p);
                    }
                }
            } else {
                let Some(rl) = pick_rule(&mut rng) else { continue };
                let vu: Option<u32> = match rng.below(4) {
                    0 => Some(cur),
                    1 => Some(cur + 1 + rng.below(10) as u32),
                    _ => None,
                };
                if rng.chance(1, 3) {
                    desc = format!("update_context_rule_name rule {}", rl.id);
                    r = invoke(e, &account, "update_context_rule_name", args!(e, rl.id, SString::from_str(e, "renamed")));
                } else {
                    desc = format!("update_context_rule_valid_until rule {} -> {vu:?}", rl.id);
                    r = invoke(e, &account, "update_context_rule_valid_until", args!(e, rl.id, vu));
                    if r.is_ok() {
                        vu_model.insert(rl.id, vu);
                    }
                }
            }
            rep.evaluations += 1;
            rep.op(format!("edit: {desc} -> {}", tag(&r)));
            rep.count(&format!("edit:{}", if r.is_ok() { "ok" } else { "refused" }));
        }
        let _ = rules;
        // a policy's install / uninstall hooks may start failing: an addition with a failing install is
        // refused (nothing to model), a removal with a failing uninstall must still detach the policy
        if rng.chance(1, 8) {
            let p = rng.idx(u.policies.len());
            let moods = rng.below(4) as u32;
            invoke::<()>(e, &u.policies[p], "set_moods", args!(e, moods)).unwrap();
            rep.op(format!("policy {p}: install {} / uninstall {}", if moods & 1 != 0 { "fails" } else { "works" }, if moods & 2 != 0 { "fails" } else { "works" }));
        }
        // scripts for the mock policies
        let mut rules = read_rules(&u);
        {
            type Row = (u32, ContextRuleType, Vec<Signer>, BTreeSet<Address>);
            let mut got: Vec<Row> = rules.iter().map(|r| (r.id, r.ctype.clone(), r.signers.clone(), r.policies.iter().cloned().collect())).collect();
            got.sort_by_key(|x| x.0);
            let want: Vec<Row> = emodel.iter().map(|(id, (t, sg, po))| (*id, t.clone(), sg.clone(), po.iter().cloned().collect())).collect();
            rep.check("registry", got == want, "C03/registry/rules-differ-from-edit-history", || {
                let brief = |v: &Vec<Row>| v.iter().map(|(id, t, sg, po)| format!("#{id}:{t:?}:{}s:{}p", sg.len(), po.len())).collect::<Vec<_>>().join(" ");
                format!("the account reports rules [{}], the edits that succeeded imply [{}]", brief(&got), brief(&want))
            });
        }
        for r in rules.iter_mut() {
            if let Some(v) = vu_model.get(&r.id) {
                if r.valid_until != *v {
                    rep.count("registry_reports_other_valid_until");
                    rep.op(format!("note: rule {} reports valid_until {:?}, it was told {:?}", r.id, r.valid_until, v));
                }
                r.valid_until = *v;
            }
        }
        for rl in &rules {
            for (pi, p) in u.policies.iter().enumerate() {
                if rl.policies.contains(p) && rng.chance(1, 6) {
                    let bits = *rng.pick(&[0u32, 1, 1, 2, 0]);
                    invoke::<()>(e, p, "set_script", args!(e, rl.id, bits)).unwrap();
                    scripts.insert((pi, rl.id), bits);
                }
            }
        }
        // ledger to the lattice of some rule's valid_until
        if rng.chance(1, 3) {
            let vs: Vec<u32> = rules.iter().filter_map(|r| r.valid_until).filter(|v| *v >= cur).collect();
            // (rarely far beyond every lifetime extension: rules, signers and policies must not lapse)
            let t = if rng.chance(1, 12) { cur + 600_000 } else if vs.is_empty() { cur + 1 } else { *rng.pick(&vs) + rng.below(2) as u32 };
            if t > cur && (t < cur + 500 || t == cur + 600_000) {
                w.set_ledger(t);
                rep.op(format!("ledger -> {t}"));
                rep.count("ledger_moves");
            }
        }
        let cur = w.ledger();
        // ---------------- probes ----------------
        for probe in 0..6 {
            let nctx = 1 + rng.idx(3);
            let mut ctxs: Vec<Context> = vec![];
            for _ in 0..nctx {
                let c = match rng.below(10) {
                    0..=5 => Context::Contract(ContractContext { contract: rng.pick(&u.targets).clone(), fn_name: Symbol::new(e, "bump"), args: args!(e, 1u32) }),
                    6 => Context::Contract(ContractContext { contract: account.clone(), fn_name: Symbol::new(e, "remove_context_rule"), args: args!(e, 0u32) }),
                    7 | 8 => Context::CreateContractHostFn(CreateContractHostFnContext { executable: ContractExecutable::Wasm(rng.pick(&u.wasms).clone()), salt: BytesN::from_array(e, &[1u8; 32]) }),
                    _ => Context::CreateContractWithCtorHostFn(CreateContractWithConstructorHostFnContext { executable: ContractExecutable::Wasm(rng.pick(&u.wasms).clone()), salt: BytesN::from_array(e, &[2u8; 32]), constructor_args: args!(e, 5u32) }),
                };
                ctxs.push(c);
            }
            // supplied signers: shaped around a rule that could cover the first context
            let t0 = ctx_type(&ctxs[0]);
            let cands: Vec<&MRule> = rules.iter().filter(|r| r.ctype == t0 || r.ctype == ContextRuleType::Default).collect();
            let base: Vec<Signer> = if cands.is_empty() { vec![] } else { rng.pick(&cands).signers.clone() };
            let class = rng.below(7);
            let mut supplied: Vec<Signer> = match class {
                6 => {
                    // the rule's signers and a crowd of outsiders: sixteen or more entries in one map
                    let mut s = base.clone();
                    s.extend(u.crowd.iter().cloned());
                    rep.count("signature_maps_with_more_than_15_entries");
                    s
                }
                0 | 1 => base.clone(),
                2 => base.iter().skip(1).cloned().collect(),
                3 => {
                    let mut s = base.clone();
                    s.push(rng.pick(&u.signers).clone());
                    s
                }
                4 => u.signers.iter().filter(|s| !base.contains(s)).take(2).cloned().collect(),
                _ => u.signers.iter().filter(|_| rng.chance(1, 2)).cloned().collect(),
            };
            supplied.sort();
            supplied.dedup();
            let payload_arr: [u8; 32] = rng.bytes();
            let payload = BytesN::from_array(e, &payload_arr);
            // validity per supplied signer
            let invalid_one = if !supplied.is_empty() && rng.chance(1, 8) { Some(rng.idx(supplied.len())) } else { None };
            let exact = rng.chance(1, 3);
            let mut sigmap: Map<Signer, Bytes> = Map::new(e);
            let mut entries: Vec<(Address, Inv)> = vec![];
            let mut all_valid = true;
            for (i, s) in supplied.iter().enumerate() {
                let bad = invalid_one == Some(i);
                match s {
                    Signer::External(v, key) if *v == u.verifier || *v == u.verifier2 => {
                        let _ = key;
                        sigmap.set(s.clone(), Bytes::from_slice(e, if bad { b"no" } else { b"ok" }));
                        if bad {
                            all_valid = false;
                        }
                    }
                    Signer::External(_, key) => {
                        // real ed25519 verifier: a genuine signature over the payload, or one over another payload
                        let mut kb = [0u8; 32];
                        key.copy_into_slice(&mut kb);
                        let sk = u.ed_keys.iter().find(|k| k.verifying_key().to_bytes() == kb).unwrap();
                        use ed25519_dalek::Signer as _;
                        let msg: [u8; 32] = if bad { [9u8; 32] } else { payload_arr };
                        let sig = sk.sign(&msg).to_bytes();
                        sigmap.set(s.clone(), Bytes::from_array(e, &sig));
                        if bad {
                            all_valid = false;
                        }
                    }
                    Signer::Delegated(a) => {
                        sigmap.set(s.clone(), Bytes::new(e));
                        if exact {
                            if bad {
                                all_valid = false; // no authorization entry for this delegated signer
                            } else {
                                entries.push((a.clone(), Inv::new(&account, "__check_auth", args!(e, payload.clone()))));
                            }
                        }
                        // under mock_all_auths a delegated signer is always valid
                    }
                }
            }
            if !exact && invalid_one.map_or(false, |i| matches!(supplied[i], Signer::Delegated(_))) {
                // cannot invalidate a delegated signer under mock_all_auths
            }
            // expected verdict
            let can = |p: &Address, r: &MRule, auth: &[Signer]| -> bool {
                if *p == u.threshold_policy {
                    thresholds.get(&r.id).map_or(false, |t| auth.len() as u32 >= *t)
                } else {
                    let pi = u.policies.iter().position(|x| x == p).unwrap();
                    scripts.get(&(pi, r.id)).map_or(true, |b| b & 1 == 0)
                }
            };
            let matched: Vec<Option<(MRule, Vec<Signer>)>> = ctxs.iter().map(|c| matcher(&rules, c, &supplied, cur, &can)).collect();
            let all_matched = matched.iter().all(|m| m.is_some());
            let enforce_ok = matched.iter().flatten().all(|(r, auth)| {
                r.policies.iter().all(|p| {
                    if *p == u.threshold_policy {
                        thresholds.get(&r.id).map_or(false, |t| auth.len() as u32 >= *t)
                    } else {
                        let pi = u.policies.iter().position(|x| x == p).unwrap();
                        scripts.get(&(pi, r.id)).map_or(true, |b| b & 2 == 0)
                    }
                })
            });
            let want = all_valid && all_matched && enforce_ok;
            // clear logs, run the real __check_auth
            e.mock_all_auths();
            for p in &u.policies {
                invoke::<()>(e, p, "clear", args!(e)).unwrap();
            }
            invoke::<()>(e, &u.verifier, "clear", args!(e)).unwrap();
            if exact {
                w.auth(&entries);
            } else {
                e.mock_all_auths();
            }
            w.reset_budget();
            let mut cv: SVec<Context> = SVec::new(e);
            for c in &ctxs {
                cv.push_back(c.clone());
            }
            let sig_val: Val = Signatures(sigmap).into_val(e);
            let got = e.try_invoke_contract_check_auth::<soroban_sdk::Error>(&account, &payload, sig_val, &cv);
            rep.evaluations += 1;
            let got_ok = got.is_ok();
            let pos: Vec<String> = matched.iter().map(|m| match m {
                None => "none".to_string(),
                Some((r, _)) => format!("{}{}", if r.ctype == ContextRuleType::Default { "default" } else { "specific" }, if r.policies.is_empty() { "" } else { "+policies" }),
            }).collect();
            rep.op(format!("probe r{round}.{probe} @{cur}: {nctx} contexts, {} supplied (class {class}, invalid {invalid_one:?}, exact_auth {exact}) -> {} ; matcher {pos:?}", supplied.len(), if got_ok { "ok" } else { "err" }));
            rep.case(format!("rules={}/ctx={nctx}/class={class}/valid={all_valid}/match={pos:?}/{}", rules.len().min(8), got_ok));
            rep.count(&format!("probe:{}", if got_ok { "ok" } else { "err" }));
            if got_ok {
                rep.check("sound", all_valid, "C03/sound/__check_auth/accepted-with-invalid-signature", || format!("check passed although supplied signer #{invalid_one:?} of {supplied:?} is invalid (exact_auth {exact})"));
                rep.check("sound", all_matched, "C03/sound/__check_auth/accepted-uncovered-context", || {
                    format!("check passed at ledger {cur} although the matcher finds no live rule for some context: {pos:?}; supplied {supplied:?}; rules {rules:?}")
                });
            }
            rep.check("ref", got_ok == want, "C03/ref/__check_auth/outcome", || {
                format!("at ledger {cur}: matcher says ok={want} (valid {all_valid}, matched {pos:?}, enforce_ok {enforce_ok}), account answered {got:?}; supplied {supplied:?}; rules {rules:?}; scripts {scripts:?} thresholds {thresholds:?}")
            });
            // LOG: enforce calls of the mock policies
            for (pi, p) in u.policies.iter().enumerate() {
                let log: SVec<PolicyCall> = invoke(e, p, "log", args!(e)).unwrap();
                let enf: Vec<(u32, Vec<Signer>, Bytes)> = log.iter().filter(|c| c.kind == 1).map(|c| (c.rule_id, c.signers.iter().collect(), c.context.clone())).collect();
                let mut want_enf: Vec<(u32, Vec<Signer>, Bytes)> = vec![];
                if got_ok && want {
                    for (c, m) in ctxs.iter().zip(&matched) {
                        let (r, auth) = m.as_ref().unwrap();
                        if r.policies.contains(p) {
                            want_enf.push((r.id, auth.clone(), c.clone().to_xdr(e)));
                        }
                    }
                }
                if got_ok == want {
                    rep.check("log", enf == want_enf, "C03/log/policy/enforce-calls", || {
                        format!("policy {pi}: enforce calls {:?}, expected {:?} (rule id, #signers)", enf.iter().map(|x| (x.0, x.1.len())).collect::<Vec<_>>(), want_enf.iter().map(|x| (x.0, x.1.len())).collect::<Vec<_>>())
                    });
                }
                if !got_ok {
                    rep.check("res", log.is_empty(), "C03/res/policy/calls-survived-failed-check", || format!("policy {pi} log has {} entries after a failed check", log.len()));
                }
                let _ = log.iter().all(|c| c.account == account);
            }
            // LOG: verifier calls
            let vlog: SVec<VerifyCall> = invoke(e, &u.verifier, "log", args!(e)).unwrap();
            if got_ok {
                let mut got_keys: Vec<Bytes> = vlog.iter().map(|c| c.key.clone()).collect();
                let mut want_keys: Vec<Bytes> = supplied.iter().filter_map(|s| match s { Signer::External(v, k) if *v == u.verifier => Some(k.clone()), _ => None }).collect();
                got_keys.sort();
                want_keys.sort();
                let hashes_ok = vlog.iter().all(|c| c.hash == Bytes::from_array(e, &payload_arr));
                rep.check("log", got_keys == want_keys && hashes_ok, "C03/log/verifier/verify-calls", || format!("verifier saw keys {got_keys:?} (payload ok: {hashes_ok}), supplied external signers {want_keys:?}"));
            } else {
                rep.check("res", vlog.is_empty(), "C03/res/verifier/calls-survived-failed-check", || format!("{} verifier calls logged after a failed check", vlog.len()));
            }
        }
    }
    let _ = (BTreeSet::<u32>::new(), ScVal::Void, xdr::Limits::none(), Limits::none());
    rep.end_history();
}

/// End to end: `execute` on the account through the host's own authorization machinery.
fn end_to_end(cfg: &Cfg, rep: &mut Report, h: u64) {
    let mut rng = Rng::for_history(cfg.seed, "C03", cfg.shard, h);
    rep.begin_history(h);
    let w = World::new(200, 16);
    let e = &w.env;
    e.mock_all_auths();
    let verifier = e.register(MockVerifier, ());
    let s: Vec<Signer> = (0..3u8).map(|i| Signer::External(verifier.clone(), Bytes::from_array(e, &[i + 1; 8]))).collect();
    let target = e.register(CountTarget, ());
    let pol = e.register(MockPolicy, ());
    let init: SVec<Signer> = SVec::from_array(e, [s[0].clone(), s[1].clone()]);
    let account = e.register(MultisigContract, (init, Map::<Address, Val>::new(e)));
    // a specific rule for calls to the account itself (execute) needing only signer 2, with a policy
    let mut pm: Map<Address, Val> = Map::new(e);
    pm.set(pol.clone(), Val::VOID.to_val());
    let sv: SVec<Signer> = SVec::from_array(e, [s[2].clone()]);
    let vu = if rng.chance(1, 2) { Some(w.ledger() + 3) } else { None };
    invoke::<Val>(e, &account, "add_context_rule", args!(e, ContextRuleType::CallContract(account.clone()), SString::from_str(e, "exec"), vu, sv, pm)).expect("add rule");
    for step in 0..12 {
        if rng.chance(1, 3) {
            w.set_ledger(w.ledger() + 1 + rng.below(3) as u32);
        }
        let cur = w.ledger();
        let specific_live = vu.map_or(true, |v| v >= cur);
        let bits = *rng.pick(&[0u32, 0, 1, 2]);
        e.mock_all_auths();
        invoke::<()>(e, &pol, "set_script", args!(e, 1u32, bits)).unwrap();
        let mask = rng.below(8);
        let supplied: Vec<usize> = (0..3).filter(|i| mask >> i & 1 == 1).collect();
        let bad = if !supplied.is_empty() && rng.chance(1, 5) { Some(*rng.pick(&supplied)) } else { None };
        let mut sigmap: Map<Signer, Bytes> = Map::new(e);
        for i in &supplied {
            sigmap.set(s[*i].clone(), Bytes::from_slice(e, if bad == Some(*i) { b"no" } else { b"ok" }));
        }
        let sig_val: Val = Signatures(sigmap).into_val(e);
        let sig_sc = ScVal::try_from_val(e, &sig_val).unwrap();
        let a = args!(e, target.clone(), Symbol::new(e, "bump"), args!(e, 3u32));
        let entry = w.entry(&account, &Inv::new(&account, "execute", a.clone()), sig_sc);
        let before: u32 = invoke(e, &target, "count", args!(e, 3u32)).unwrap();
        e.set_auths(&[entry]);
        w.reset_budget();
        let got: Result<Val, Fail> = invoke(e, &account, "execute", a);
        rep.evaluations += 1;
        let after: u32 = invoke(e, &target, "count", args!(e, 3u32)).unwrap();
        // expected: the specific rule (id 1, live, with a policy) is tried first and is decided by its
        // policy alone (documented: with policies the signer list only feeds the policy); if its policy
        // says no, the Default rule (id 0, no policies) needs both of its signers
        let specific_matches = specific_live && bits & 1 == 0;
        let want = bad.is_none() && if specific_matches { bits & 2 == 0 } else { supplied.contains(&0) && supplied.contains(&1) };
        rep.op(format!("e2e #{step} @{cur} execute with signers {supplied:?} bad={bad:?} specific_live={specific_live} policy_bits={bits} -> {}", tag(&got)));
        rep.case(format!("e2e/mask={mask}/bits={bits}/bad={}/specific_live={specific_live}/{}", bad.is_some(), tag(&got)));
        rep.check("ref", got.is_ok() == want, "C03/ref/execute/end-to-end-outcome", || format!("execute at ledger {cur} with signers {supplied:?} (bad {bad:?}, specific rule live {specific_live}): expected ok={want}, got {got:?}"));
        rep.check("sound", after == before + if got.is_ok() { 1 } else { 0 }, "C03/sound/execute/target-effect", || format!("target counter {before} -> {after} with {got:?}"));
        rep.count(&format!("e2e:{}", tag(&got)));
    }
    rep.end_history();
}

pub fn run(cfg: &Cfg, rep: &mut Report) {
    rep.rule = "Seeded histories on the real multisig-smart-account example: rule sets built by add/remove rule, add/remove signer, add/remove policy, update valid_until (3 call targets + the account itself, 2 wasm hashes, Default; 3 delegated + 3 mock-verified + 2 real-ed25519 signers + 2 aliases (the key bytes of two mock-verified signers under a second verifier); 3 scriptable logging policies + the real threshold-policy example); after each batch of edits 6 probes of the real __check_auth with 1-3 contexts (contract call, create contract with/without constructor) and supplied signer sets {a rule's signers, all but one, superset, disjoint, random}, one signature invalid in 1/8, delegated signers by mock or exact authorization entries; ledger moved to valid_until / +1. Plus end-to-end execute() calls through the host with hand-built entries. Distinct case = (#rules, #contexts, supplied-signer class, all valid?, per-context matched-rule kind, outcome).".into();
    let nh = cfg.pick(30u64, 300);
    let rounds = cfg.pick(30usize, 60);
    for k in 0..nh {
        if cfg.runs(k) {
            history(cfg, rep, k, rounds);
        }
    }
    for k in 0..cfg.pick(6u64, 40) {
        let h = 100_000 + k;
        if cfg.runs(h) {
            end_to_end(cfg, rep, h);
        }
    }
    rep.floor_on("probes_ok", 200, &["probe:ok"]);
    rep.floor_on("probes_err", 200, &["probe:err"]);
    rep.floor_on("e2e_ok", 5, &["e2e:ok"]);
}
