//! C09 — a self-administered timelock controller cannot be driven around its own delay.
//! Systematic end-to-end sweep: admin-only entry point x operation state x payload shape x
//! executor variant, with hand-built authorization entries for the controller's own address so
//! that the real `__check_auth` runs; effects observed before/after.
use crate::args;
use crate::contracts::timelock::CountTarget;
use crate::contracts::tokens::TokBase;
use crate::examples::timelock_controller::{OperationMeta, TimelockController};
use crate::report::Report;
use crate::rng::Rng;
use crate::world::{Must, invoke, tag, Fail, Inv, World};
use crate::Cfg;
use soroban_sdk::auth::{Context, ContractContext};
use soroban_sdk::xdr::{self, ScVal};
use soroban_sdk::{Address, BytesN, Env, IntoVal, Symbol, TryFromVal, Val, Vec as SVec};

const EPS: [&str; 6] = ["update_delay", "grant_role", "revoke_role", "set_role_admin", "transfer_admin_role", "renounce_admin"];
// "foreign_target": the same (function, arguments, predecessor, salt) was scheduled and is ready - but for
// ANOTHER contract; nothing was ever scheduled for the controller itself
const STATES: [&str; 6] = ["unset", "waiting", "ready", "done", "cancelled", "foreign_target"];
const SHAPES: [&str; 7] = ["proper", "empty", "two", "wrong_salt", "wrong_pred", "no_entry", "other_call"];
const EXECS: [&str; 4] = ["proper", "absent", "not_executor", "executor_unsigned"];

struct Setup {
    w: World,
    c: Address,
    p: Address,  // proposer + canceller
    x: Address,  // executor (when configured)
    nx: Address, // holds no role
    s: Address,  // stranger / beneficiary
    with_exec: bool,
}

fn setup(with_exec: bool, start: u32) -> Setup {
    let w = World::new(start, 16);
    let e = &w.env;
    let (p, x, nx, s) = (w.account(), w.account(), w.account(), w.account());
    let proposers: SVec<Address> = SVec::from_array(e, [p.clone()]);
    let executors: SVec<Address> = if with_exec { SVec::from_array(e, [x.clone()]) } else { SVec::new(e) };
    let c = e.register(TimelockController, (5u32, proposers, executors, None::<Address>));
    Setup { w, c, p, x, nx, s, with_exec }
}

fn ep_args(su: &Setup, ep: &str) -> SVec<Val> {
    let e = &su.w.env;
    match ep {
        "update_delay" => args!(e, 0u32),
        "grant_role" => args!(e, su.s, Symbol::new(e, "proposer"), su.c),
        "revoke_role" => args!(e, su.p, Symbol::new(e, "canceller"), su.c),
        "set_role_admin" => args!(e, Symbol::new(e, "proposer"), Symbol::new(e, "boss")),
        "transfer_admin_role" => args!(e, su.s, su.w.ledger() + 500),
        _ => args!(e),
    }
}

/// Has the admin-only entry point visibly taken effect?
fn effect(su: &Setup, ep: &str) -> bool {
    let e = &su.w.env;
    match ep {
        "update_delay" => invoke::<u32>(e, &su.c, "get_min_delay", args!(e)).unwrap() == 0,
        "grant_role" => invoke::<Option<u32>>(e, &su.c, "has_role", args!(e, su.s, Symbol::new(e, "proposer"))).unwrap().is_some(),
        "revoke_role" => invoke::<Option<u32>>(e, &su.c, "has_role", args!(e, su.p, Symbol::new(e, "canceller"))).unwrap().is_none(),
        "set_role_admin" => invoke::<Option<Symbol>>(e, &su.c, "get_role_admin", args!(e, Symbol::new(e, "proposer"))).unwrap().is_some(),
        "transfer_admin_role" => {
            // the pending admin is not exposed; it shows when the beneficiary can accept
            e.mock_all_auths();
            let r: Result<Val, Fail> = invoke(e, &su.c, "accept_admin_transfer", args!(e));
            r.is_ok()
        }
        _ => invoke::<Option<Address>>(e, &su.c, "get_admin", args!(e)).must("get_admin").is_none(),
    }
}

fn metas_val(e: &Env, metas: &[OperationMeta]) -> ScVal {
    let mut v: SVec<OperationMeta> = SVec::new(e);
    for m in metas {
        v.push_back(m.clone());
    }
    let val: Val = v.into_val(e);
    ScVal::try_from_val(e, &val).unwrap()
}

fn op_state(su: &Setup, id: &BytesN<32>) -> u32 {
    let e = &su.w.env;
    let exists: bool = invoke(e, &su.c, "operation_exists", args!(e, id.clone())).must("operation_exists");
    let ready: bool = invoke(e, &su.c, "is_operation_ready", args!(e, id.clone())).must("is_operation_ready");
    let done: bool = invoke(e, &su.c, "is_operation_done", args!(e, id.clone())).must("is_operation_done");
    let st = match (exists, ready, done) {
        (false, _, _) => 0,
        (_, _, true) => 3,
        (_, true, _) => 2,
        _ => 1,
    };
    // the controller's other views of the same operation must tell the same story (a disagreement is
    // raised as a refused query would be: typed panic, recorded as a violation by `main`)
    let pending: bool = invoke(e, &su.c, "is_operation_pending", args!(e, id.clone())).must("is_operation_pending");
    let ledger: u32 = invoke(e, &su.c, "get_operation_ledger", args!(e, id.clone())).must("get_operation_ledger");
    let state: stellar_governance::timelock::OperationState = invoke(e, &su.c, "get_operation_state", args!(e, id.clone())).must("get_operation_state");
    let state_name = format!("{state:?}");
    let agree = pending == (st == 1 || st == 2) && (ledger == 0) == (st == 0) && state_name == ["Unset", "Waiting", "Ready", "Done"][st as usize];
    if !agree {
        Err::<(), Fail>(Fail::Host(format!("views disagree: exists {exists} ready {ready} done {done} pending {pending} ledger {ledger} state {state_name}"))).must("operation-views-agree");
    }
    st
}

/// Entries for one attempted call `c.ep(args)`: the controller's own entry carrying `metas`, plus
/// the executor's entry for the nested require_auth_for_args when asked.
fn build_auth(su: &Setup, ep: &str, a: &SVec<Val>, metas: Option<&[OperationMeta]>, exec_entry: Option<(&Address, &BytesN<32>, &BytesN<32>)>) -> std::vec::Vec<xdr::SorobanAuthorizationEntry> {
    let e = &su.w.env;
    let mut out = vec![];
    if let Some(m) = metas {
        out.push(su.w.entry(&su.c, &Inv::new(&su.c, ep, a.clone()), metas_val(e, m)));
    }
    if let Some((x, pred, salt)) = exec_entry {
        let args_for_auth: SVec<Val> = args!(e, Symbol::new(e, "execute_op"), su.c, Symbol::new(e, ep), a.clone(), pred.clone(), salt.clone());
        out.push(su.w.entry(x, &Inv::new(&su.c, "__check_auth", args_for_auth), ScVal::Void));
    }
    out
}

fn drive_state(su: &Setup, ep: &str, a: &SVec<Val>, pred: &BytesN<32>, salt: &BytesN<32>, state: &str) -> BytesN<32> {
    let e = &su.w.env;
    e.mock_all_auths();
    let id: BytesN<32> = invoke(e, &su.c, "hash_operation", args!(e, su.c, Symbol::new(e, ep), a.clone(), pred.clone(), salt.clone())).must("hash_operation");
    if state == "unset" {
        return id;
    }
    if state == "foreign_target" {
        let other = e.register(CountTarget, ());
        let r: Result<BytesN<32>, Fail> = invoke(e, &su.c, "schedule_op", args!(e, other, Symbol::new(e, ep), a.clone(), pred.clone(), salt.clone(), 5u32, su.p));
        r.expect("schedule_op for another target in setup");
        su.w.set_ledger(su.w.ledger() + 5);
        return id;
    }
    let r: Result<BytesN<32>, Fail> = invoke(e, &su.c, "schedule_op", args!(e, su.c, Symbol::new(e, ep), a.clone(), pred.clone(), salt.clone(), 5u32, su.p));
    r.expect("schedule_op in setup");
    match state {
        "waiting" => su.w.set_ledger(su.w.ledger() + 4),
        "ready" => su.w.set_ledger(su.w.ledger() + 5),
        "cancelled" => {
            su.w.set_ledger(su.w.ledger() + 5);
            e.mock_all_auths();
            let r: Result<Val, Fail> = invoke(e, &su.c, "cancel_op", args!(e, id.clone(), su.p));
            r.expect("cancel_op in setup");
        }
        "done" => {
            su.w.set_ledger(su.w.ledger() + 5);
            // consume it through the proper path once
            let exec = if su.with_exec { Some(su.x.clone()) } else { None };
            let m = [OperationMeta { predecessor: pred.clone(), salt: salt.clone(), executor: exec }];
            let auth = build_auth(su, ep, a, Some(&m), if su.with_exec { Some((&su.x, pred, salt)) } else { None });
            e.set_auths(&auth);
            let r: Result<Val, Fail> = invoke(e, &su.c, ep, a.clone());
            r.expect("proper execution in setup");
        }
        _ => {}
    }
    id
}

pub fn systematic(cfg: &Cfg, rep: &mut Report) {
    let mut idx: u64 = 0;
    for with_exec in [false, true] {
        for ep in EPS {
            for state in STATES {
                for shape in SHAPES {
                    for exv in EXECS {
                        if !with_exec && exv != "proper" && exv != "absent" {
                            continue;
                        }
                        idx += 1;
                        if idx % cfg.nshards as u64 != cfg.shard as u64 || !cfg.runs(idx) {
                            continue;
                        }
                        one_case(rep, idx, with_exec, ep, state, shape, exv);
                    }
                }
            }
        }
    }
    rep.count_n("systematic_cases_total_over_shards", 0);
}

fn one_case(rep: &mut Report, idx: u64, with_exec: bool, ep: &str, state: &str, shape: &str, exv: &str) {
    rep.begin_history(idx);
    let su = setup(with_exec, 100);
    let e = &su.w.env;
    let zero = BytesN::from_array(e, &[0u8; 32]);
    let salt = BytesN::from_array(e, &[7u8; 32]);
    let a = ep_args(&su, ep);
    let done_setup_effect = state == "done";
    let id = drive_state(&su, ep, &a, &zero, &salt, state);
    let st_before = op_state(&su, &id);
    // for the done state the effect is already there; use call success as the observable
    let eff_before = if done_setup_effect || ep == "transfer_admin_role" { false } else { effect(&su, ep) };
    let executor: Option<Address> = match (with_exec, exv) {
        (false, "proper") => None,
        (false, _) => Some(su.s.clone()),
        (true, "proper") | (true, "executor_unsigned") => Some(su.x.clone()),
        (true, "absent") => None,
        _ => Some(su.nx.clone()),
    };
    let good = OperationMeta { predecessor: zero.clone(), salt: salt.clone(), executor: executor.clone() };
    let metas: Option<std::vec::Vec<OperationMeta>> = match shape {
        "proper" => Some(vec![good.clone()]),
        "empty" => Some(vec![]),
        "two" => Some(vec![good.clone(), good.clone()]),
        "wrong_salt" => Some(vec![OperationMeta { salt: BytesN::from_array(e, &[8u8; 32]), ..good.clone() }]),
        "wrong_pred" => Some(vec![OperationMeta { predecessor: BytesN::from_array(e, &[9u8; 32]), ..good.clone() }]),
        "other_call" => Some(vec![good.clone()]),
        _ => None,
    };
    // "other_call": the descriptor is fine but the call actually made differs in its arguments from
    // the scheduled one (only meaningful for entry points with arguments)
    let call_args = if shape == "other_call" {
        match ep {
            "update_delay" => args!(e, 1u32),
            "grant_role" => args!(e, su.nx, Symbol::new(e, "proposer"), su.c),
            "revoke_role" => args!(e, su.p, Symbol::new(e, "proposer"), su.c),
            "set_role_admin" => args!(e, Symbol::new(e, "canceller"), Symbol::new(e, "boss")),
            "transfer_admin_role" => args!(e, su.nx, su.w.ledger() + 500),
            _ => a.clone(),
        }
    } else {
        a.clone()
    };
    let exec_entry = match (&executor, exv) {
        (Some(x), "proper") | (Some(x), "not_executor") => Some((x, &zero, &salt)),
        (Some(x), "absent") if !with_exec => Some((x, &zero, &salt)),
        _ => None,
    };
    let auth = build_auth(&su, ep, &call_args, metas.as_deref(), exec_entry);
    e.set_auths(&auth);
    su.w.reset_budget();
    let got: Result<Val, Fail> = invoke(e, &su.c, ep, call_args.clone());
    rep.evaluations += 1;
    let st_after = op_state(&su, &id);
    // renounce_admin has no arguments, so "other_call" degenerates to the proper call
    let shape = if shape == "other_call" && ep == "renounce_admin" { "proper" } else { shape };
    let same_call = shape != "other_call";
    let consumed = st_before == 2 && st_after == 3 && same_call;
    let exec_ok = !with_exec || exv == "proper";
    let label = format!("exec_cfg={with_exec}/{ep}/{state}/{shape}/{exv}");
    rep.op(format!("case {label}: state {st_before}->{st_after}, call -> {}", tag(&got)));
    rep.case(format!("{label}/{}", tag(&got)));
    rep.count(&format!("{}:{}", ep, tag(&got)));
    if let Err(Fail::Budget) = got {
        rep.count("budget_errors");
    }
    if state == "foreign_target" {
        rep.check("bypass", got.is_err(), &format!("C09/bypass/{ep}/consumed-an-operation-scheduled-for-another-target/{shape}"), || {
            format!("{label}: admin-only call succeeded although the only operation ever scheduled names another contract; the controller reported state {st_before} -> {st_after} for its own id")
        });
        rep.check("ref", st_before == 0, "C09/ref/state-of-an-operation-never-scheduled-for-the-controller", || format!("{label}: state {st_before} before the call"));
    }
    // The property: the call goes through only by consuming a Ready operation for exactly this call
    if got.is_ok() {
        rep.check("bypass", consumed, &format!("C09/bypass/{ep}/passed-without-consuming-ready-op/{shape}"), || {
            format!("{label}: admin-only call succeeded; operation state {st_before} -> {st_after} (2=Ready,3=Done), payload shape {shape}")
        });
        rep.check("bypass", exec_ok, &format!("C09/bypass/{ep}/passed-without-executor/{exv}"), || {
            format!("{label}: admin-only call succeeded with executor variant {exv} although executors are configured")
        });
    }
    if !done_setup_effect {
        let eff_after = effect(&su, ep);
        rep.evaluations += 1;
        if eff_after && !eff_before {
            rep.check("effect", got.is_ok() && consumed && exec_ok, &format!("C09/effect/{ep}/took-effect-without-ready-op/{shape}"), || {
                format!("{label}: effect visible after the call (call {got:?}); operation state {st_before} -> {st_after}")
            });
        }
        if got.is_ok() && ep != "transfer_admin_role" {
            rep.check("effect", eff_after || shape == "other_call", &format!("C09/effect/{ep}/ok-without-effect"), || format!("{label}: call ok but no effect observed"));
        }
    }
    // converse: the proper path must work (otherwise the sweep proves nothing)
    let must_ok = state == "ready" && shape == "proper" && exec_ok;
    let must_fail = !(state == "ready" && (shape == "proper" || shape == "two") && exec_ok);
    if must_ok {
        rep.check("ref", got.is_ok(), &format!("C09/ref/{ep}/proper-path-refused"), || format!("{label}: proper execution refused: {got:?}"));
        rep.count("proper_path_ok");
    }
    if must_fail {
        rep.check("ref", got.is_err(), &format!("C09/ref/{ep}/outcome/{shape}"), || format!("{label}: expected refusal, got {got:?}"));
    }
    rep.end_history();
}


/// Operations scheduled WITH a predecessor: the descriptor cannot shed or swap the predecessor.
pub fn predecessor_cases(cfg: &Cfg, rep: &mut Report) {
    let mut k = 0u64;
    for with_exec in [false, true] {
        for ep in EPS {
            for pred_done in [false, true] {
                for shape in ["proper", "zero_pred", "other_pred"] {
                    k += 1;
                    let h = 700_000 + k;
                    if h % cfg.nshards as u64 != cfg.shard as u64 || !cfg.runs(h) {
                        continue;
                    }
                    rep.begin_history(h);
                    let su = setup(with_exec, 100);
                    let e = &su.w.env;
                    let zero = BytesN::from_array(e, &[0u8; 32]);
                    let salt = BytesN::from_array(e, &[7u8; 32]);
                    // predecessor Q: a call on a counting target, scheduled by the proposer
                    let target = e.register(CountTarget, ());
                    e.mock_all_auths();
                    let q: BytesN<32> = invoke(e, &su.c, "schedule_op", args!(e, target, Symbol::new(e, "bump"), args!(e, 1u32), zero.clone(), zero.clone(), 5u32, su.p)).expect("schedule Q");
                    let a = ep_args(&su, ep);
                    e.mock_all_auths();
                    let r: Result<BytesN<32>, Fail> = invoke(e, &su.c, "schedule_op", args!(e, su.c, Symbol::new(e, ep), a.clone(), q.clone(), salt.clone(), 5u32, su.p));
                    let id = r.expect("schedule op with predecessor");
                    su.w.set_ledger(su.w.ledger() + 5);
                    if pred_done {
                        e.mock_all_auths();
                        let r: Result<Val, Fail> = invoke(e, &su.c, "execute_op", args!(e, target, Symbol::new(e, "bump"), args!(e, 1u32), zero.clone(), zero.clone(), Some(su.x.clone())));
                        r.expect("execute Q");
                    }
                    let executor = if with_exec { Some(su.x.clone()) } else { None };
                    let pred = match shape {
                        "proper" => q.clone(),
                        "zero_pred" => zero.clone(),
                        _ => BytesN::from_array(e, &[9u8; 32]),
                    };
                    let metas = [OperationMeta { predecessor: pred.clone(), salt: salt.clone(), executor: executor.clone() }];
                    let auth = build_auth(&su, ep, &a, Some(&metas), if with_exec { Some((&su.x, &pred, &salt)) } else { None });
                    let st0 = op_state(&su, &id);
                    // authorization entries only serve the very next invocation: install them last
                    e.set_auths(&auth);
                    su.w.reset_budget();
                    if std::env::var("VERIF_DEBUG").is_ok() && pred_done && shape == "proper" {
                        let mut ctxs: SVec<Context> = SVec::new(e);
                        ctxs.push_back(Context::Contract(ContractContext { contract: su.c.clone(), fn_name: Symbol::new(e, ep), args: a.clone() }));
                        let mut mv: SVec<OperationMeta> = SVec::new(e);
                        mv.push_back(metas[0].clone());
                        let r = e.try_invoke_contract_check_auth::<soroban_sdk::Error>(&su.c, &BytesN::from_array(e, &[1u8; 32]), mv.into_val(e), &ctxs);
                        eprintln!("DEBUG {ep} with_exec={with_exec}: direct __check_auth -> {r:?} ; q state {}", op_state(&su, &q));
                        e.set_auths(&auth);
                    }
                    let got: Result<Val, Fail> = invoke(e, &su.c, ep, a.clone());
                    rep.evaluations += 1;
                    let st1 = op_state(&su, &id);
                    let label = format!("exec_cfg={with_exec}/{ep}/scheduled-with-predecessor(done={pred_done})/{shape}");
                    rep.op(format!("case {label}: state {st0}->{st1}, call -> {}", tag(&got)));
                    rep.case(format!("{label}/{}", tag(&got)));
                    let may_pass = pred_done && shape == "proper";
                    if got.is_ok() {
                        rep.check("bypass", may_pass && st0 == 2 && st1 == 3, &format!("C09/bypass/{ep}/passed-around-predecessor/{shape}"), || {
                            format!("{label}: admin-only call succeeded; operation scheduled with predecessor Q (done={pred_done}), descriptor named {shape}; state {st0}->{st1}")
                        });
                    }
                    if may_pass {
                        rep.check("ref", got.is_ok(), &format!("C09/ref/{ep}/proper-path-with-done-predecessor-refused"), || format!("{label}: {got:?} raw={} panic={}", crate::world::last_error(), crate::last_panic()));
                    }
                    rep.end_history();
                }
            }
        }
    }
}

/// Direct probing of `__check_auth` with several contexts against fewer/more descriptors.
fn multi_context(cfg: &Cfg, rep: &mut Report) {
    let mut rng = Rng::for_history(cfg.seed, "C09", cfg.shard, 900_000);
    let n = cfg.pick(40u64, 400);
    for k in 0..n {
        let h = 900_000 + k;
        if !cfg.runs(h) {
            continue;
        }
        rep.begin_history(h);
        let su = setup(false, 100);
        let e = &su.w.env;
        let zero = BytesN::from_array(e, &[0u8; 32]);
        // up to 3 contexts, each an update_delay(i) call with its own salt; some scheduled+ready
        let nctx = 1 + rng.idx(3);
        let mut ready = vec![];
        let mut ctxs: SVec<Context> = SVec::new(e);
        let mut salts = vec![];
        for i in 0..nctx {
            let a = args!(e, 10 + i as u32);
            let salt = BytesN::from_array(e, &[i as u8 + 1; 32]);
            let is_ready = rng.chance(2, 3);
            if is_ready {
                e.mock_all_auths();
                let r: Result<BytesN<32>, Fail> = invoke(e, &su.c, "schedule_op", args!(e, su.c, Symbol::new(e, "update_delay"), a.clone(), zero.clone(), salt.clone(), 5u32, su.p));
                r.expect("schedule");
            }
            ready.push(is_ready);
            salts.push(salt);
            ctxs.push_back(Context::Contract(ContractContext { contract: su.c.clone(), fn_name: Symbol::new(e, "update_delay"), args: a }));
        }
        su.w.set_ledger(su.w.ledger() + 5);
        // one time in five the controller is also asked to authorize something that is no contract call at
        // all (a contract deployment in its name): never to be authorized, whatever the descriptors say
        let with_deploy = rng.chance(1, 5);
        if with_deploy {
            use soroban_sdk::auth::{ContractExecutable, CreateContractHostFnContext};
            let dc = Context::CreateContractHostFn(CreateContractHostFnContext { executable: ContractExecutable::Wasm(BytesN::from_array(e, &[7u8; 32])), salt: BytesN::from_array(e, &[8u8; 32]) });
            if rng.chance(1, 2) {
                ctxs.push_back(dc);
            } else {
                ctxs.push_front(dc);
            }
        }
        let nctx_all = nctx + with_deploy as usize;
        let nmeta = rng.idx(nctx_all + 2); // 0 ..= all contexts + 1 descriptors
        // descriptors in the order of the contexts, or (one time in three) rotated by one: every
        // context then meets the descriptor of another operation
        let permuted = nctx >= 2 && nmeta >= 2 && rng.chance(1, 3);
        let mut metas: SVec<OperationMeta> = SVec::new(e);
        for i in 0..nmeta {
            let j = if permuted { (i + 1) % nmeta } else { i };
            let salt = salts.get(j).cloned().unwrap_or_else(|| BytesN::from_array(e, &[99u8; 32]));
            metas.push_back(OperationMeta { predecessor: zero.clone(), salt, executor: None });
        }
        let ids: std::vec::Vec<BytesN<32>> = (0..nctx).map(|i| invoke(e, &su.c, "hash_operation", args!(e, su.c, Symbol::new(e, "update_delay"), args!(e, 10 + i as u32), zero.clone(), salts[i].clone())).must("hash_operation")).collect();
        let before: std::vec::Vec<u32> = ids.iter().map(|id| op_state(&su, id)).collect();
        let payload = BytesN::from_array(e, &[1u8; 32]);
        let r = e.try_invoke_contract_check_auth::<soroban_sdk::Error>(&su.c, &payload, metas.into_val(e), &ctxs);
        rep.evaluations += 1;
        let after: std::vec::Vec<u32> = ids.iter().map(|id| op_state(&su, id)).collect();
        if r.is_ok() {
            rep.check("bypass", before.iter().all(|s| *s == 2) && after.iter().all(|s| *s == 3), "C09/bypass/__check_auth/accepted-without-consuming-every-operation", || format!("__check_auth accepted {nctx} contexts; operation states {before:?} -> {after:?} (2 ready, 3 done)"));
        } else {
            rep.check("res", before == after, "C09/res/__check_auth/refusal-changed-operation-state", || format!("__check_auth refused; operation states {before:?} -> {after:?}"));
        }
        if with_deploy {
            rep.case(format!("check_auth/with-deployment-context/ctx={nctx}/meta={nmeta}/{}", r.is_ok()));
            rep.check("bypass", r.is_err(), "C09/bypass/__check_auth/authorized-a-contract-deployment", || format!("__check_auth accepted {nctx} controller calls plus a contract deployment in the controller's name, with {nmeta} descriptors"));
            rep.end_history();
            continue;
        }
        let all_covered = nmeta >= nctx && ready.iter().all(|r| *r) && !permuted;
        rep.op(format!("__check_auth contexts={nctx} ready={ready:?} descriptors={nmeta} -> {}", if r.is_ok() { "ok" } else { "err" }));
        rep.case(format!("check_auth/ctx={nctx}/meta={nmeta}/permuted={permuted}/all_ready={}/{}", ready.iter().all(|r| *r), r.is_ok()));
        if r.is_ok() {
            rep.check("bypass", all_covered, "C09/bypass/__check_auth/context-authorized-without-descriptor-or-ready-op", || {
                format!("__check_auth accepted {nctx} contexts (ready: {ready:?}) with {nmeta} descriptors")
            });
        }
        if nmeta == nctx && ready.iter().all(|r| *r) && !permuted {
            rep.check("ref", r.is_ok(), "C09/ref/__check_auth/proper-refused", || format!("{nctx} ready contexts with {nmeta} matching descriptors refused: {r:?}"));
        }
        rep.end_history();
    }
}

/// Calls on behalf of the controller that are not controller calls at all (its token balance).
fn foreign_context(cfg: &Cfg, rep: &mut Report) {
    if cfg.shard != 1 % cfg.nshards && !cfg.thorough() {
        return;
    }
    for (k, shape) in ["empty", "one", "two"].iter().enumerate() {
        let h = 950_000 + k as u64;
        if !cfg.runs(h) {
            continue;
        }
        rep.begin_history(h);
        let su = setup(false, 100);
        let e = &su.w.env;
        let tok = e.register(TokBase, ());
        e.mock_all_auths();
        invoke::<()>(e, &tok, "mint", args!(e, su.c, 1000i128)).unwrap();
        let zero = BytesN::from_array(e, &[0u8; 32]);
        let m = OperationMeta { predecessor: zero.clone(), salt: zero.clone(), executor: None };
        let metas: std::vec::Vec<OperationMeta> = match *shape {
            "empty" => vec![],
            "one" => vec![m.clone()],
            _ => vec![m.clone(), m.clone()],
        };
        let a = args!(e, su.c, su.s, 600i128);
        let entry = su.w.entry(&su.c, &Inv::new(&tok, "transfer", a.clone()), metas_val(e, &metas));
        e.set_auths(&[entry]);
        let got: Result<(), Fail> = invoke(e, &tok, "transfer", a);
        rep.evaluations += 1;
        let bal: i128 = invoke(e, &tok, "balance", args!(e, su.c)).must("balance");
        rep.op(format!("token.transfer(from=controller) with {shape} descriptor list -> {} (controller balance {bal})", tag(&got)));
        rep.case(format!("foreign/{shape}/{}", tag(&got)));
        rep.check("bypass", got.is_err() && bal == 1000, &format!("C09/bypass/foreign-contract-call/authorized-on-behalf-of-controller/{shape}"), || {
            format!("a stranger moved the controller's tokens with a {shape} descriptor list: {got:?}, balance now {bal}")
        });
        rep.end_history();
    }
}

/// schedule / cancel / execute need role + authorization.
fn role_gates(cfg: &Cfg, rep: &mut Report) {
    let mut k = 0u64;
    for with_exec in [false, true] {
        for f in ["schedule_op", "cancel_op", "execute_op"] {
            for who in ["proposer", "executor", "stranger"] {
                for signed in [true, false] {
                    k += 1;
                    let h = 800_000 + k;
                    if h % cfg.nshards as u64 != cfg.shard as u64 || !cfg.runs(h) {
                        continue;
                    }
                    rep.begin_history(h);
                    let su = setup(with_exec, 100);
                    let e = &su.w.env;
                    let target = e.register(CountTarget, ());
                    let zero = BytesN::from_array(e, &[0u8; 32]);
                    let caller = match who {
                        "proposer" => su.p.clone(),
                        "executor" => su.x.clone(),
                        _ => su.s.clone(),
                    };
                    let fnb = Symbol::new(e, "bump");
                    let ta = args!(e, 1u32);
                    if f != "schedule_op" {
                        e.mock_all_auths();
                        let r: Result<BytesN<32>, Fail> = invoke(e, &su.c, "schedule_op", args!(e, target, fnb.clone(), ta.clone(), zero.clone(), zero.clone(), 5u32, su.p));
                        r.expect("schedule");
                        su.w.set_ledger(su.w.ledger() + 5);
                    }
                    let id: BytesN<32> = invoke(e, &su.c, "hash_operation", args!(e, target, fnb.clone(), ta.clone(), zero.clone(), zero.clone())).must("hash_operation");
                    let a: SVec<Val> = match f {
                        "schedule_op" => args!(e, target, fnb.clone(), ta.clone(), zero.clone(), zero.clone(), 5u32, caller),
                        "cancel_op" => args!(e, id.clone(), caller),
                        _ => args!(e, target, fnb.clone(), ta.clone(), zero.clone(), zero.clone(), Some(caller.clone())),
                    };
                    if signed {
                        su.w.auth(&[(caller.clone(), Inv::new(&su.c, f, a.clone()))]);
                    } else {
                        su.w.no_auth();
                    }
                    let got: Result<Val, Fail> = invoke(e, &su.c, f, a);
                    rep.evaluations += 1;
                    let has_role = match f {
                        "schedule_op" | "cancel_op" => who == "proposer",
                        _ => who == "executor",
                    };
                    let want = match f {
                        "execute_op" if !with_exec => true, // open execution: anyone, no authorization
                        _ => has_role && signed,
                    };
                    let n: u32 = invoke(e, &target, "count", args!(e, 1u32)).unwrap();
                    rep.op(format!("{f} by {who} signed={signed} exec_cfg={with_exec} -> {} (target count {n})", tag(&got)));
                    rep.case(format!("gate/{f}/{who}/signed={signed}/exec_cfg={with_exec}/{}", tag(&got)));
                    rep.check("auth", got.is_ok() == want, &format!("C09/auth/{f}/role-gate"), || {
                        format!("{f} by {who} (signed={signed}, executors configured={with_exec}): expected ok={want}, got {got:?}")
                    });
                    rep.check("log", n == if f == "execute_op" && got.is_ok() { 1 } else { 0 }, &format!("C09/log/{f}/target-count"), || format!("target count {n} after {f} -> {got:?}"));
                    rep.end_history();
                }
            }
        }
    }
}


// ------------------------------------------------------------------------------------------
// Long-lived controllers: random schedule / cancel / admin-call / execute_op / ledger histories
// against a model of (operation table, minimum delay, role table).

#[derive(Clone, PartialEq, Debug)]
enum Call {
    Delay(u32),
    Grant(usize, usize),
    Revoke(usize, usize),
    SetRoleAdmin(usize),
    /// the controller gives up administering itself: afterwards no administrative call can pass
    RenounceAdmin,
    Bump(u32),
}
const ROLES: [&str; 3] = ["proposer", "canceller", "executor"];

struct MOp {
    call: Call,
    pred: BytesN<32>,
    pred_idx: Option<usize>, // None: no predecessor (zero) or an id nobody scheduled
    salt: u8,
    id: BytesN<32>,
    ready: u32,
    state: u8, // 0 unset (cancelled), 1 pending, 3 done
}

struct Long {
    su: Setup,
    acc: [Address; 4],
    target: Address,
    has: [[bool; 3]; 4],
    min_delay: u32,
    counts: [u32; 3],
    ops: std::vec::Vec<MOp>,
    admin_alive: bool,
}

impl Long {
    fn call_parts(&self, c: &Call) -> (Address, &'static str, SVec<Val>) {
        let e = &self.su.w.env;
        match c {
            Call::Delay(d) => (self.su.c.clone(), "update_delay", args!(e, *d)),
            Call::Grant(a, r) => (self.su.c.clone(), "grant_role", args!(e, self.acc[*a], Symbol::new(e, ROLES[*r]), self.su.c)),
            Call::Revoke(a, r) => (self.su.c.clone(), "revoke_role", args!(e, self.acc[*a], Symbol::new(e, ROLES[*r]), self.su.c)),
            Call::SetRoleAdmin(r) => (self.su.c.clone(), "set_role_admin", args!(e, Symbol::new(e, ROLES[*r]), Symbol::new(e, "boss"))),
            Call::RenounceAdmin => (self.su.c.clone(), "renounce_admin", args!(e)),
            Call::Bump(k) => (self.target.clone(), "bump", args!(e, *k)),
        }
    }
    fn executors_configured(&self) -> bool {
        self.has.iter().any(|h| h[2])
    }
    fn pred_done(&self, op: &MOp, zero: &BytesN<32>) -> bool {
        if &op.pred == zero {
            return true;
        }
        match op.pred_idx {
            Some(i) => self.ops[i].state == 3,
            None => false,
        }
    }
    fn find(&self, call: &Call, pred: &BytesN<32>, salt: u8) -> Option<usize> {
        self.ops.iter().position(|o| &o.call == call && &o.pred == pred && o.salt == salt)
    }
    fn model_state(&self, i: usize) -> u32 {
        let o = &self.ops[i];
        match o.state {
            0 => 0,
            3 => 3,
            _ => {
                if self.su.w.ledger() >= o.ready {
                    2
                } else {
                    1
                }
            }
        }
    }
    fn random_call(&self, rng: &mut Rng) -> Call {
        match rng.idx(40) {
            39 => return Call::RenounceAdmin,
            _ => {}
        }
        match rng.idx(10) {
            0 | 1 => Call::Delay(*rng.pick(&[0u32, 1, 3, 5, 9])),
            2 | 3 | 4 => Call::Grant(rng.idx(4), rng.idx(3)),
            5 | 6 => Call::Revoke(rng.idx(4), rng.idx(3)),
            7 => Call::SetRoleAdmin(rng.idx(3)),
            _ => Call::Bump(1 + rng.idx(2) as u32),
        }
    }
    /// Compare every getter with the model; false = diverged (history is abandoned).
    fn compare(&self, rep: &mut Report, after: &str) -> bool {
        let e = &self.su.w.env;
        let mut ok = true;
        for i in 0..self.ops.len() {
            let got = op_state(&self.su, &self.ops[i].id);
            let want = self.model_state(i);
            rep.evaluations += 1;
            ok &= rep.check("ref", got == want, "C09/ref/long/operation-state", || {
                format!("after {after}: operation #{i} {:?} salt {} is in state {got}, model says {want} (0 unset, 1 waiting, 2 ready, 3 done); ready ledger {} now {}", self.ops[i].call, self.ops[i].salt, self.ops[i].ready, self.su.w.ledger())
            });
        }
        let adm: Option<Address> = invoke(e, &self.su.c, "get_admin", args!(e)).must("get_admin");
        ok &= rep.check("ref", adm == if self.admin_alive { Some(self.su.c.clone()) } else { None }, "C09/ref/long/admin", || format!("after {after}: get_admin = {adm:?}, model: the controller itself, alive = {}", self.admin_alive));
        let d: u32 = invoke(e, &self.su.c, "get_min_delay", args!(e)).must("get_min_delay");
        ok &= rep.check("ref", d == self.min_delay, "C09/ref/long/min-delay", || format!("after {after}: minimum delay {d}, model {}", self.min_delay));
        for a in 0..4 {
            for r in 0..3 {
                let h = invoke::<Option<u32>>(e, &self.su.c, "has_role", args!(e, self.acc[a], Symbol::new(e, ROLES[r]))).must("has_role").is_some();
                ok &= rep.check("ref", h == self.has[a][r], "C09/ref/long/role-table", || format!("after {after}: account {a} role {}: contract says {h}, model {}", ROLES[r], self.has[a][r]));
            }
        }
        for k in 1..3u32 {
            let n: u32 = invoke(e, &self.target, "count", args!(e, k)).unwrap();
            ok &= rep.check("log", n == self.counts[k as usize], "C09/log/long/target-invocations", || format!("after {after}: target counter {k} is {n}, model {}", self.counts[k as usize]));
        }
        ok
    }
}

fn long_history(rep: &mut Report, rng: &mut Rng, h: u64, steps: usize) {
    rep.begin_history(h);
    let with_exec = rng.chance(1, 2);
    let su = setup(with_exec, 100);
    let acc = [su.p.clone(), su.x.clone(), su.nx.clone(), su.s.clone()];
    let target = su.w.env.register(CountTarget, ());
    let mut m = Long { su, acc, target, has: [[false; 3]; 4], min_delay: 5, counts: [0; 3], ops: vec![], admin_alive: true };
    m.has[0][0] = true;
    m.has[0][1] = true;
    m.has[1][2] = with_exec;
    let e = m.su.w.env.clone();
    let zero = BytesN::from_array(&e, &[0u8; 32]);
    let unknown = BytesN::from_array(&e, &[0xEEu8; 32]);
    let saltb = |s: u8| BytesN::from_array(&e, &[s; 32]);
    for step in 0..steps {
        m.su.w.reset_budget();
        let roll = rng.idx(100);
        let what: String;
        if roll < 33 {
            // ---- schedule
            let call = if !m.ops.is_empty() && rng.chance(1, 6) { m.ops[rng.idx(m.ops.len())].call.clone() } else { m.random_call(rng) };
            let (pred, pred_idx) = match rng.idx(20) {
                0 => (unknown.clone(), None),
                1..=6 if !m.ops.is_empty() => {
                    let i = rng.idx(m.ops.len());
                    (m.ops[i].id.clone(), Some(i))
                }
                _ => (zero.clone(), None),
            };
            let salt = 1 + rng.idx(3) as u8;
            let delay = match rng.idx(12) {
                0 => 0,
                1 | 2 => m.min_delay.saturating_sub(1),
                3..=6 => m.min_delay,
                7 | 8 => m.min_delay + 1,
                9 => m.min_delay + 3,
                10 => 5,
                _ => if rng.chance(1, 4) { u32::MAX } else { 2 },
            };
            let j = if rng.chance(3, 4) { 0 } else { rng.idx(4) };
            let signed = rng.chance(9, 10);
            let (t, f, a) = m.call_parts(&call);
            let sa: SVec<Val> = args!(&e, t, Symbol::new(&e, f), a, pred.clone(), saltb(salt), delay, m.acc[j]);
            let existing = m.find(&call, &pred, salt);
            let want = signed && m.has[j][0] && delay >= m.min_delay && existing.map_or(true, |i| m.ops[i].state == 0);
            if signed {
                m.su.w.auth(&[(m.acc[j].clone(), Inv::new(&m.su.c, "schedule_op", sa.clone()))]);
            } else {
                m.su.w.no_auth();
            }
            let got: Result<BytesN<32>, Fail> = invoke(&e, &m.su.c, "schedule_op", sa);
            rep.evaluations += 1;
            what = format!("schedule {call:?} pred={} salt={salt} delay={delay} by acct{j} signed={signed} (min delay {}) -> {}", if pred == zero { "none" } else if pred_idx.is_some() { "op" } else { "unknown" }, m.min_delay, tag(&got));
            rep.op(format!("[{step}] L{} {what}", m.su.w.ledger()));
            rep.case(format!("long/schedule/role={}/signed={signed}/delay_ok={}/fresh={}/{}", m.has[j][0], delay >= m.min_delay, existing.map_or(true, |i| m.ops[i].state == 0), got.is_ok()));
            rep.check("ref", got.is_ok() == want, "C09/ref/long/schedule/outcome", || format!("{what}: expected ok={want}"));
            if let Ok(id) = got {
                let ready = m.su.w.ledger().saturating_add(delay);
                match existing {
                    Some(i) => {
                        m.ops[i].state = 1;
                        m.ops[i].ready = ready;
                        m.ops[i].id = id;
                    }
                    None => m.ops.push(MOp { call, pred, pred_idx, salt, id, ready, state: 1 }),
                }
                rep.count("long_scheduled");
            }
        } else if roll < 70 {
            // ---- attempt to run an administrative call (or execute_op for the external target)
            let (call, mut mpred, mut msalt) = if !m.ops.is_empty() && rng.chance(4, 5) {
                let o = &m.ops[rng.idx(m.ops.len())];
                (o.call.clone(), o.pred.clone(), o.salt)
            } else {
                (m.random_call(rng), zero.clone(), 1 + rng.idx(3) as u8)
            };
            let shape = *rng.pick(&["proper", "proper", "proper", "proper", "proper", "proper", "wrong_salt", "wrong_pred", "empty", "two", "no_entry", "void_signature", "number_signature"]);
            match shape {
                "wrong_salt" => msalt = 1 + (msalt % 3),
                "wrong_pred" => mpred = if mpred == zero { unknown.clone() } else { zero.clone() },
                _ => {}
            }
            let xj: Option<usize> = if rng.chance(1, 8) { None } else if rng.chance(2, 3) { Some(1) } else { Some(rng.idx(4)) };
            let xsigned = rng.chance(9, 10);
            let (t, f, a) = m.call_parts(&call);
            let entry = m.find(&call, &mpred, msalt);
            let exec_ok = !m.executors_configured() || xj.map_or(false, |j| m.has[j][2] && xsigned);
            let one_meta = shape == "proper" || shape == "wrong_salt" || shape == "wrong_pred";
            let op_ok = entry.map_or(false, |i| m.model_state(i) == 2 && m.pred_done(&m.ops[i], &zero));
            let id_obs: BytesN<32> = invoke(&e, &m.su.c, "hash_operation", args!(&e, t, Symbol::new(&e, f), a.clone(), mpred.clone(), saltb(msalt))).must("hash_operation");
            let executor = xj.map(|j| m.acc[j].clone());
            if let Call::Bump(k) = call {
                // external target: through execute_op; descriptor shapes do not apply
                let xa: SVec<Val> = args!(&e, t, Symbol::new(&e, f), a.clone(), mpred.clone(), saltb(msalt), executor.clone());
                let st0 = { let su = &m.su; op_state(su, &id_obs) };
                match (&executor, xsigned) {
                    (Some(x), true) => m.su.w.auth(&[(x.clone(), Inv::new(&m.su.c, "execute_op", xa.clone()))]),
                    _ => m.su.w.no_auth(),
                }
                let got: Result<Val, Fail> = invoke(&e, &m.su.c, "execute_op", xa);
                rep.evaluations += 1;
                let st1 = op_state(&m.su, &id_obs);
                let want = op_ok && exec_ok;
                what = format!("execute_op bump({k}) pred={} salt={msalt} executor={xj:?} signed={xsigned} -> {} (state {st0}->{st1})", if mpred == zero { "none" } else { "some" }, tag(&got));
                rep.op(format!("[{step}] L{} {what}", m.su.w.ledger()));
                rep.case(format!("long/execute_op/op_ok={op_ok}/exec_ok={exec_ok}/{}", got.is_ok()));
                if got.is_ok() {
                    rep.check("bypass", st0 == 2 && st1 == 3, "C09/bypass/long/execute_op/ran-without-consuming-ready-op", || format!("{what}"));
                }
                rep.check("ref", got.is_ok() == want, "C09/ref/long/execute_op/outcome", || format!("{what}: expected ok={want}"));
                if got.is_ok() {
                    if let Some(i) = entry {
                        m.ops[i].state = 3;
                    }
                    m.counts[k as usize] += 1;
                    rep.count("long_execute_ok");
                }
            } else if rng.chance(1, 10) {
                // a self-administration operation pushed through execute_op: re-entry, must fail
                let xa: SVec<Val> = args!(&e, t, Symbol::new(&e, f), a.clone(), mpred.clone(), saltb(msalt), executor.clone());
                e.mock_all_auths_allowing_non_root_auth();
                let got: Result<Val, Fail> = invoke(&e, &m.su.c, "execute_op", xa);
                rep.evaluations += 1;
                what = format!("execute_op on the controller itself: {call:?} -> {}", tag(&got));
                rep.op(format!("[{step}] L{} {what}", m.su.w.ledger()));
                rep.case(format!("long/execute_op-on-self/{}", got.is_ok()));
                rep.check("bypass", got.is_err(), "C09/bypass/long/execute_op-on-self/passed", || what.clone());
                if got.is_ok() {
                    rep.end_history();
                    return;
                }
            } else {
                let good = OperationMeta { predecessor: mpred.clone(), salt: saltb(msalt), executor: executor.clone() };
                let metas: Option<std::vec::Vec<OperationMeta>> = match shape {
                    "empty" => Some(vec![]),
                    "two" => Some(vec![good.clone(), good.clone()]),
                    "no_entry" => None,
                    _ => Some(vec![good.clone()]),
                };
                let psalt = saltb(msalt);
                let exec_entry = match (&executor, xsigned) {
                    (Some(x), true) => Some((x, &mpred, &psalt)),
                    _ => None,
                };
                let st0 = op_state(&m.su, &id_obs);
                let mut auth = build_auth(&m.su, f, &a, metas.as_deref(), exec_entry);
                // a signature that is not a descriptor list at all
                if shape == "void_signature" || shape == "number_signature" {
                    let sig = if shape == "void_signature" { ScVal::Void } else { ScVal::U32(5) };
                    auth[0] = m.su.w.entry(&m.su.c, &Inv::new(&m.su.c, f, a.clone()), sig);
                }
                e.set_auths(&auth);
                m.su.w.reset_budget();
                let got: Result<Val, Fail> = invoke(&e, &m.su.c, f, a.clone());
                rep.evaluations += 1;
                let st1 = op_state(&m.su, &id_obs);
                let effect_valid = match call {
                    Call::Revoke(a, r) => m.has[a][r],
                    _ => true,
                };
                let want = one_meta && op_ok && exec_ok && effect_valid && m.admin_alive;
                what = format!("{call:?} with descriptor {shape} (pred={} salt={msalt}) executor={xj:?} signed={xsigned} executors_configured={} -> {} (state {st0}->{st1})", if mpred == zero { "none" } else { "some" }, m.executors_configured(), tag(&got));
                rep.op(format!("[{step}] L{} {what}", m.su.w.ledger()));
                rep.case(format!("long/admin/{f}/{shape}/op_ok={op_ok}/exec_ok={exec_ok}/valid={effect_valid}/{}", got.is_ok()));
                if got.is_ok() {
                    rep.check("bypass", one_meta && st0 == 2 && st1 == 3, &format!("C09/bypass/long/{f}/passed-without-consuming-ready-op"), || what.clone());
                    rep.check("bypass", exec_ok, &format!("C09/bypass/long/{f}/passed-without-executor"), || what.clone());
                } else {
                    rep.check("res", st0 == st1, &format!("C09/res/long/{f}/refused-call-changed-operation-state"), || what.clone());
                }
                rep.check("ref", got.is_ok() == want, &format!("C09/ref/long/{f}/outcome"), || format!("{what}: expected ok={want}"));
                if got.is_ok() {
                    if let Some(i) = entry {
                        m.ops[i].state = 3;
                    }
                    match call {
                        Call::Delay(d) => m.min_delay = d,
                        Call::Grant(a, r) => m.has[a][r] = true,
                        Call::Revoke(a, r) => m.has[a][r] = false,
                        Call::RenounceAdmin => {
                            m.admin_alive = false;
                            rep.count("long_admin_renounced");
                        }
                        _ => {}
                    }
                    rep.count("long_admin_ok");
                }
            }
        } else if roll < 74 {
            // ---- role management attempted directly by a role holder (or anybody), with its own signature:
            // no role has an admin role anybody holds, so only the controller - through a consumed
            // operation - may grant or revoke
            let (i, j, r) = (rng.idx(4), rng.idx(4), rng.idx(3));
            let grant = rng.chance(1, 2);
            let f = if grant { "grant_role" } else { "revoke_role" };
            let a: SVec<Val> = args!(&e, m.acc[j], Symbol::new(&e, ROLES[r]), m.acc[i]);
            m.su.w.auth(&[(m.acc[i].clone(), Inv::new(&m.su.c, f, a.clone()))]);
            let got: Result<Val, Fail> = invoke(&e, &m.su.c, f, a);
            rep.evaluations += 1;
            what = format!("{f}(acct{j}, {}) called directly by acct{i} (holds that role: {}) -> {}", ROLES[r], m.has[i][r], tag(&got));
            rep.op(format!("[{step}] L{} {what}", m.su.w.ledger()));
            rep.case(format!("long/direct-{f}/caller-holds-role={}/{}", m.has[i][r], got.is_ok()));
            rep.check("bypass", got.is_err(), &format!("C09/bypass/long/{f}/by-an-account-without-going-through-the-timelock"), || what.clone());
            if got.is_ok() {
                m.has[j][r] = grant;
            }
        } else if roll < 80 && !m.ops.is_empty() {
            // ---- cancel
            let i = rng.idx(m.ops.len());
            let j = if rng.chance(2, 3) { 0 } else { rng.idx(4) };
            let signed = rng.chance(9, 10);
            let ca: SVec<Val> = args!(&e, m.ops[i].id.clone(), m.acc[j]);
            let pending = m.ops[i].state == 1;
            let want = signed && m.has[j][1] && pending;
            if signed {
                m.su.w.auth(&[(m.acc[j].clone(), Inv::new(&m.su.c, "cancel_op", ca.clone()))]);
            } else {
                m.su.w.no_auth();
            }
            let got: Result<Val, Fail> = invoke(&e, &m.su.c, "cancel_op", ca);
            rep.evaluations += 1;
            what = format!("cancel #{i} by acct{j} signed={signed} -> {}", tag(&got));
            rep.op(format!("[{step}] L{} {what}", m.su.w.ledger()));
            rep.case(format!("long/cancel/role={}/signed={signed}/state={}/{}", m.has[j][1], m.model_state(i), got.is_ok()));
            rep.check("ref", got.is_ok() == want, "C09/ref/long/cancel/outcome", || format!("{what}: expected ok={want}"));
            if got.is_ok() {
                m.ops[i].state = 0;
            }
        } else {
            let d = if rng.chance(1, 30) { 1_700_000 } else { *rng.pick(&[1u32, 1, 2, 4, 5, 8]) };
            m.su.w.set_ledger(m.su.w.ledger() + d);
            what = format!("ledger +{d}");
            rep.op(format!("[{step}] L{} {what}", m.su.w.ledger()));
        }
        if !m.compare(rep, &what) {
            rep.count("long_history_abandoned_after_divergence");
            break;
        }
    }
    rep.end_history();
}

fn long_histories(cfg: &Cfg, rep: &mut Report) {
    let nh = cfg.pick(12u64, 600);
    let steps = cfg.pick(70usize, 140);
    for k in 0..nh {
        let h = 1_000_000 + k;
        if !cfg.runs(h) {
            continue;
        }
        let mut rng = Rng::for_history(cfg.seed, "C09", cfg.shard, h);
        long_history(rep, &mut rng, h, steps);
    }
}

/// Several executors, one of which leaves (renounces its role, first or last in the list): the others are
/// still configured, so the executor gate stays closed for everybody else - both in `execute_op` and in
/// the controller's own authorization check.
fn executor_leaves(cfg: &Cfg, rep: &mut Report) {
    for (k, (nexec, leaver)) in [(2usize, 0usize), (2, 1), (3, 0), (3, 1), (3, 2)].iter().enumerate() {
        let h = 960_000 + k as u64;
        if h % cfg.nshards as u64 != cfg.shard as u64 || !cfg.runs(h) {
            continue;
        }
        rep.begin_history(h);
        let w = World::new(100, 16);
        let e = &w.env;
        let (p, s) = (w.account(), w.account());
        let xs = w.accounts(*nexec);
        let mut ex: SVec<Address> = SVec::new(e);
        for x in &xs {
            ex.push_back(x.clone());
        }
        let c = e.register(TimelockController, (5u32, SVec::from_array(e, [p.clone()]), ex, None::<Address>));
        let target = e.register(CountTarget, ());
        let zero = BytesN::from_array(e, &[0u8; 32]);
        e.mock_all_auths();
        // two ready operations: an external one and a self-administration one
        invoke::<BytesN<32>>(e, &c, "schedule_op", args!(e, target, Symbol::new(e, "bump"), args!(e, 1u32), zero.clone(), zero.clone(), 5u32, p)).expect("schedule external");
        invoke::<BytesN<32>>(e, &c, "schedule_op", args!(e, c, Symbol::new(e, "update_delay"), args!(e, 0u32), zero.clone(), zero.clone(), 5u32, p)).expect("schedule self-administration");
        w.set_ledger(w.ledger() + 5);
        e.mock_all_auths();
        let r: Result<Val, Fail> = invoke(e, &c, "renounce_role", args!(e, Symbol::new(e, "executor"), xs[*leaver].clone()));
        rep.op(format!("{nexec} executors, number {leaver} renounces -> {}", tag(&r)));
        let left: u32 = invoke(e, &c, "get_role_member_count", args!(e, Symbol::new(e, "executor"))).must("get_role_member_count");
        rep.check("ref", r.is_ok() && left as usize == nexec - 1, "C09/ref/executor-leaves/setup", || format!("renounce {r:?}, executors left {left}"));
        // (1) execute_op with no executor named, signed by a stranger / by nobody
        for signed in [true, false] {
            if signed {
                w.auth(&[(s.clone(), Inv::new(&c, "execute_op", args!(e, target, Symbol::new(e, "bump"), args!(e, 1u32), zero.clone(), zero.clone(), None::<Address>)))]);
            } else {
                w.no_auth();
            }
            let got: Result<Val, Fail> = invoke(e, &c, "execute_op", args!(e, target, Symbol::new(e, "bump"), args!(e, 1u32), zero.clone(), zero.clone(), None::<Address>));
            rep.evaluations += 1;
            rep.case(format!("executor-leaves/{nexec}-{leaver}/execute_op-without-executor/{}", tag(&got)));
            rep.check("auth", got.is_err(), "C09/auth/execute_op/role-gate", || format!("{nexec} executors, number {leaver} left: execute_op naming no executor succeeded ({} still hold the role)", nexec - 1));
        }
        // (2) the former executor itself
        w.auth(&[(xs[*leaver].clone(), Inv::new(&c, "execute_op", args!(e, target, Symbol::new(e, "bump"), args!(e, 1u32), zero.clone(), zero.clone(), Some(xs[*leaver].clone()))))]);
        let got: Result<Val, Fail> = invoke(e, &c, "execute_op", args!(e, target, Symbol::new(e, "bump"), args!(e, 1u32), zero.clone(), zero.clone(), Some(xs[*leaver].clone())));
        rep.check("auth", got.is_err(), "C09/auth/execute_op/role-gate", || "an account that renounced the executor role still executes".to_string());
        // (3) the self-administration path with a descriptor naming no executor
        let metas = [OperationMeta { predecessor: zero.clone(), salt: zero.clone(), executor: None }];
        let a = args!(e, 0u32);
        let entry = w.entry(&c, &Inv::new(&c, "update_delay", a.clone()), metas_val(e, &metas));
        e.set_auths(&[entry]);
        let got: Result<Val, Fail> = invoke(e, &c, "update_delay", a);
        let md: u32 = invoke(e, &c, "get_min_delay", args!(e)).must("get_min_delay");
        rep.evaluations += 2;
        rep.case(format!("executor-leaves/{nexec}-{leaver}/self-administration-without-executor/{}", tag(&got)));
        rep.check("bypass", got.is_err() && md == 5, "C09/bypass/update_delay/passed-without-executor/absent", || format!("{nexec} executors, number {leaver} left: update_delay with a descriptor naming no executor -> {got:?}, minimum delay now {md}"));
        // (4) a remaining executor still can
        let other = (0..*nexec).find(|i| i != leaver).unwrap();
        w.auth(&[(xs[other].clone(), Inv::new(&c, "execute_op", args!(e, target, Symbol::new(e, "bump"), args!(e, 1u32), zero.clone(), zero.clone(), Some(xs[other].clone()))))]);
        let got: Result<Val, Fail> = invoke(e, &c, "execute_op", args!(e, target, Symbol::new(e, "bump"), args!(e, 1u32), zero.clone(), zero.clone(), Some(xs[other].clone())));
        rep.check("ref", got.is_ok(), "C09/ref/executor-leaves/remaining-executor-refused", || format!("remaining executor {other}: {got:?}"));
        rep.count("executor_leaves_cases");
        rep.end_history();
    }
}

pub fn run(cfg: &Cfg, rep: &mut Report) {
    rep.rule = "Exhaustive sweep (split over shards): executors configured? x 6 admin-only entry points x operation state {unset,waiting,ready,done,cancelled} x payload shape {proper,empty,two,wrong_salt,wrong_pred,no_entry,other_call} x executor variant {proper,absent,not_executor,executor_unsigned}, each an end-to-end call on a fresh controller (admin = itself) with a hand-built authorization entry whose signature is the descriptor list; plus role gates of schedule/cancel/execute (caller x signed), operations scheduled with a (pending / done) predecessor against descriptors naming the right, no or another predecessor, direct __check_auth probes with 1-3 contexts against 0..n+1 descriptors, and a foreign-contract call (token transfer from the controller); controllers with two or three executors one of whom renounces (first, middle or last in the list): the gate stays closed; plus long-lived controllers: seeded histories of schedule (self-administration calls update_delay / grant_role / revoke_role / set_role_admin and an external bump, with predecessors, salts 1..3, delays around the current minimum) / administrative call with descriptor shape x executor variant / execute_op / execute_op on the controller itself / cancel / ledger +1..8, against a model of operation table, minimum delay and role table, every getter compared after every step. Distinct case = the tuple + outcome; none is trivial.".into();
    systematic(cfg, rep);
    role_gates(cfg, rep);
    predecessor_cases(cfg, rep);
    multi_context(cfg, rep);
    foreign_context(cfg, rep);
    executor_leaves(cfg, rep);
    long_histories(cfg, rep);
    rep.floor_on("long_admin_ok", 20, &["long_admin_ok"]);
    rep.floor_on("proper_path_ok", 1, &["proper_path_ok"]);
}
