//! C12 — fixed-point mul-div is exact for every input and fails only when it must.
//! DIFF monitor: exact BigInt arithmetic vs plain (through a wrapper contract) and checked variants.
use crate::contracts::math::{rounding, MathC, MathCClient};
use crate::report::Report;
use crate::rng::Rng;
use crate::world::{outcome, Fail, World};
use crate::Cfg;
use num_bigint::{BigInt, Sign};
use num_integer::Integer;
use num_traits::{One, Signed, ToPrimitive, Zero};
use serde_json::json;
use soroban_sdk::{Bytes, Env, I256};
use stellar_contract_utils::math::wad::{Wad, WAD_SCALE};
use stellar_contract_utils::math::{checked_mul_div_i128, checked_mul_div_i256};

const RN: [&str; 3] = ["floor", "ceil", "trunc"];

fn exact(x: &BigInt, y: &BigInt, d: &BigInt, r: u32) -> Option<BigInt> {
    if d.is_zero() {
        return None;
    }
    let p = x * y;
    Some(match r {
        0 => p.div_floor(d),
        1 => p.div_ceil(d),
        _ => &p / d, // BigInt division truncates toward zero
    })
}

fn fits128(v: &BigInt) -> Option<i128> {
    v.to_i128()
}

fn lattice(thorough: bool) -> Vec<i128> {
    let base: Vec<i128> = vec![0, 1, 2, 1i128 << 63, 1i128 << 64, 1_000_000_000_000_000_000, i128::MAX];
    let mut v: Vec<i128> = vec![i128::MIN, i128::MIN + 1, i128::MAX - 1];
    for b in base {
        for k in [-1i128, 0, 1] {
            if let Some(p) = b.checked_add(k) {
                v.push(p);
                if let Some(n) = p.checked_neg() {
                    v.push(n);
                }
            }
        }
    }
    v.extend([3, -3, i128::MIN + 2, i128::MAX - 2, (1i128 << 126), -(1i128 << 126), 7_000_000_000_000_000_001]);
    if thorough {
        for k in [32u32, 62, 65, 96, 100, 125] {
            v.extend([1i128 << k, -(1i128 << k), (1i128 << k) - 1, (1i128 << k) + 1]);
        }
        v.extend([10i128.pow(36), -(10i128.pow(36)), 10i128.pow(38), i128::MAX / 3, i128::MIN / 3]);
    }
    v.sort();
    v.dedup();
    v
}

fn sign_pat(x: &BigInt, y: &BigInt, d: &BigInt) -> String {
    let s = |v: &BigInt| match v.sign() {
        Sign::Minus => '-',
        Sign::NoSign => '0',
        Sign::Plus => '+',
    };
    format!("{}{}{}", s(x), s(y), s(d))
}

struct Ctx<'a> {
    w: World,
    client: MathCClient<'a>,
}

fn mk<'a>() -> Ctx<'a> {
    let w = World::new(10, 16);
    let id = w.env.register(MathC, ());
    let client = MathCClient::new(&w.env, &id);
    Ctx { w, client }
}

/// One (x,y,d) triple on all three roundings, plain + checked.
/// Checked variants are called directly (no contract frame): a host trap surfaces as a Rust panic of
/// this process. A checked variant must answer None, never trap, so a trap is a finding, not a crash.
fn guard<T>(f: impl FnOnce() -> T) -> Result<T, String> {
    std::panic::catch_unwind(std::panic::AssertUnwindSafe(f)).map_err(|_| crate::last_panic())
}

fn check_triple(c: &Ctx, rep: &mut Report, x: i128, y: i128, d: i128, plain: bool) {
    let (bx, by, bd) = (BigInt::from(x), BigInt::from(y), BigInt::from(d));
    let prod_fits = x.checked_mul(y).is_some();
    for r in 0..3u32 {
        let ex = exact(&bx, &by, &bd, r);
        let want: Option<i128> = ex.as_ref().and_then(fits128);
        let inexact = !d.is_zero() && !((&bx * &by) % &bd).is_zero();
        rep.case(format!(
            "i128/{}/{}/prodfits={}/qfits={}/inexact={}",
            RN[r as usize],
            sign_pat(&bx, &by, &bd),
            prod_fits,
            want.is_some(),
            inexact
        ));
        if !prod_fits && want.is_some() {
            rep.count("phantom_overflow_cases");
        }
        let got_c = guard(|| checked_mul_div_i128(&c.w.env, x, y, d, rounding(r)));
        rep.evaluations += 1;
        let got_c = match got_c {
            Ok(v) => v,
            Err(p) => {
                rep.check("checked_i128", false, &format!("C12/diff/checked_mul_div_i128/{}/trapped-instead-of-answering", RN[r as usize]), || {
                    format!("x={x} y={y} d={d} rounding={}: the checked variant trapped ({p}), exact result {want:?}", RN[r as usize])
                });
                continue;
            }
        };
        rep.check("checked_i128", got_c == want, &format!("C12/diff/checked_mul_div_i128/{}", RN[r as usize]), || {
            format!("x={x} y={y} d={d} rounding={} got={got_c:?} want={want:?}", RN[r as usize])
        });
        if plain {
            let got_p = outcome(c.client.try_muldiv(&x, &y, &d, &r));
            rep.evaluations += 1;
            let ok = match (&got_p, want) {
                (Ok(v), Some(wv)) => *v == wv,
                // the statement asks for "a panic": the documented codes and a Rust trap both count
                (Err(Fail::Contract(1501)), None) => d == 0,
                (Err(Fail::Contract(1500)), None) | (Err(Fail::Trap), None) => d != 0,
                _ => false,
            };
            rep.check("plain_i128", ok, &format!("C12/diff/mul_div_i128/{}", RN[r as usize]), || {
                format!("x={x} y={y} d={d} rounding={} got={got_p:?} want={want:?}", RN[r as usize])
            });
            rep.count(&format!("plain:{}", crate::world::tag(&got_p)));
        }
    }
}

fn to_i256(e: &Env, v: &BigInt) -> I256 {
    let b = v.to_signed_bytes_be();
    let fill = if v.is_negative() { 0xFF } else { 0 };
    let mut a = [fill; 32];
    a[32 - b.len()..].copy_from_slice(&b);
    I256::from_be_bytes(e, &Bytes::from_array(e, &a))
}

fn from_i256(v: &I256) -> BigInt {
    let b = v.to_be_bytes();
    let mut a = [0u8; 32];
    b.copy_into_slice(&mut a);
    BigInt::from_signed_bytes_be(&a)
}

fn fits256(v: &BigInt) -> bool {
    let lim = BigInt::one() << 255;
    *v >= -&lim && *v < lim
}

fn check_256(c: &Ctx, rep: &mut Report, x: &BigInt, y: &BigInt, d: &BigInt, plain: bool) {
    let e = &c.w.env;
    let p = x * y;
    if !fits256(&p) {
        rep.count("i256_skipped_product_overflow");
        return;
    }
    for r in 0..3u32 {
        let ex = exact(x, y, d, r);
        if let Some(q) = &ex {
            if !fits256(q) {
                // only MIN/-1: quotient not representable, outside the statement
                rep.count("i256_skipped_quotient_overflow");
                continue;
            }
        }
        let inexact = !d.is_zero() && !(&p % d).is_zero();
        rep.case(format!("i256/{}/{}/big={}/inexact={}", RN[r as usize], sign_pat(x, y, d), p.bits() > 127, inexact));
        let (xi, yi, di) = (to_i256(e, x), to_i256(e, y), to_i256(e, d));
        // called directly (no contract frame): a host trap surfaces as a Rust panic of this process
        let got = std::panic::catch_unwind(std::panic::AssertUnwindSafe(|| checked_mul_div_i256(e, xi.clone(), yi.clone(), di.clone(), rounding(r)).map(|v| from_i256(&v))));
        rep.evaluations += 1;
        let Ok(got) = got else {
            rep.check("checked_i256", false, &format!("C12/diff/checked_mul_div_i256/{}/trapped-although-product-fits", RN[r as usize]), || {
                format!("x={x} y={y} d={d} rounding={}: the call trapped ({}), exact result {ex:?}", RN[r as usize], crate::last_panic())
            });
            continue;
        };
        rep.check("checked_i256", got == ex, &format!("C12/diff/checked_mul_div_i256/{}", RN[r as usize]), || {
            format!("x={x} y={y} d={d} rounding={} got={got:?} want={ex:?}", RN[r as usize])
        });
        if plain {
            let gp = outcome(c.client.try_muldiv256(&xi, &yi, &di, &r)).map(|v| from_i256(&v));
            rep.evaluations += 1;
            let ok = match (&gp, &ex) {
                (Ok(v), Some(wv)) => v == wv,
                (Err(Fail::Contract(1501)), None) => true,
                _ => false,
            };
            rep.check("plain_i256", ok, &format!("C12/diff/mul_div_i256/{}", RN[r as usize]), || {
                format!("x={x} y={y} d={d} rounding={} got={gp:?} want={ex:?}", RN[r as usize])
            });
        }
    }
}

fn trunc_div(n: &BigInt, d: &BigInt) -> Option<i128> {
    if d.is_zero() {
        return None;
    }
    (n / d).to_i128()
}

/// Exact-arithmetic rendering of "exponentiation by squaring, each product truncated to 18 decimals";
/// None as soon as a needed intermediate leaves i128.
fn ref_pow(x: i128, mut n: u32) -> Option<i128> {
    if n == 0 {
        return Some(WAD_SCALE);
    }
    if n == 1 {
        return Some(x);
    }
    if x == 0 {
        return Some(0);
    }
    if x == WAD_SCALE {
        return Some(x);
    }
    let s = BigInt::from(WAD_SCALE);
    let mut base = BigInt::from(x);
    let mut res = s.clone();
    while n > 0 {
        if n & 1 == 1 {
            res = BigInt::from(trunc_div(&(&res * &base), &s)?);
        }
        n >>= 1;
        if n > 0 {
            base = BigInt::from(trunc_div(&(&base * &base), &s)?);
        }
    }
    res.to_i128()
}

fn check_wad(c: &Ctx, rep: &mut Report, a: i128, b: i128, plain: bool) {
    let e = &c.w.env;
    let s = BigInt::from(WAD_SCALE);
    let (ba, bb) = (BigInt::from(a), BigInt::from(b));
    // checked_mul
    let want = trunc_div(&(&ba * &bb), &s);
    let got = guard(|| Wad::from_raw(a).checked_mul(e, Wad::from_raw(b)).map(|w| w.raw()));
    rep.evaluations += 1;
    rep.case(format!("wad_mul/{}/fits={}", sign_pat(&ba, &bb, &s), want.is_some()));
    match got {
        Ok(got) => {
            rep.check("wad_mul", got == want, "C12/diff/Wad::checked_mul", || format!("a={a} b={b} got={got:?} want={want:?}"));
        }
        Err(p) => {
            rep.check("wad_mul", false, "C12/diff/Wad::checked_mul/trapped-instead-of-answering", || format!("a={a} b={b} trapped ({p}), want={want:?}"));
        }
    }
    // checked_div
    let want = trunc_div(&(&ba * &s), &bb);
    let got = guard(|| Wad::from_raw(a).checked_div(e, Wad::from_raw(b)).map(|w| w.raw()));
    rep.evaluations += 1;
    rep.case(format!("wad_div/{}/fits={}", sign_pat(&ba, &s, &bb), want.is_some()));
    match got {
        Ok(got) => {
            rep.check("wad_div", got == want, "C12/diff/Wad::checked_div", || format!("a={a} b={b} got={got:?} want={want:?}"));
        }
        Err(p) => {
            rep.check("wad_div", false, "C12/diff/Wad::checked_div/trapped-instead-of-answering", || format!("a={a} b={b} trapped ({p}), want={want:?}"));
        }
    }
    // from_ratio (panicking) through the wrapper
    if plain {
        let got = outcome(c.client.try_wad_from_ratio(&a, &b));
        rep.evaluations += 1;
        let ok = match (&got, want) {
            (Ok(v), Some(wv)) => *v == wv,
            (Err(Fail::Contract(1501)), None) => b == 0,
            (Err(Fail::Contract(1500)), None) => b != 0,
            _ => false,
        };
        rep.case(format!("wad_from_ratio/{}/{}", sign_pat(&ba, &s, &bb), crate::world::tag(&got)));
        rep.check("wad_from_ratio", ok, "C12/diff/Wad::from_ratio", || format!("num={a} den={b} got={got:?} want={want:?}"));
    }
}

fn check_pow(c: &Ctx, rep: &mut Report, x: i128, n: u32) {
    let e = &c.w.env;
    let chk = match guard(|| Wad::from_raw(x).checked_pow(e, n).map(|w| w.raw())) {
        Ok(v) => v,
        Err(p) => {
            rep.check("wad_pow_ref", false, "C12/diff/Wad::checked_pow/trapped-instead-of-answering", || format!("x={x} n={n} trapped ({p})"));
            return;
        }
    };
    let plain = outcome(c.client.try_wad_pow(&x, &n));
    rep.evaluations += 2;
    let ok = match (&plain, chk) {
        (Ok(v), Some(cv)) => *v == cv,
        (Err(Fail::Contract(1500)), None) => true,
        _ => false,
    };
    rep.case(format!("wad_pow/neg={}/n={}/{}", x < 0, n.min(70), crate::world::tag(&plain)));
    rep.check("wad_pow_equiv", ok, "C12/equiv/Wad::pow-vs-checked_pow", || format!("x={x} n={n} pow={plain:?} checked_pow={chk:?}"));
    let want = ref_pow(x, n);
    rep.check("wad_pow_ref", chk == want, "C12/diff/Wad::checked_pow", || format!("x={x} n={n} got={chk:?} want={want:?}"));
}

fn rand_signed(rng: &mut Rng, bits: u32) -> i128 {
    let v = rng.i128_bits(bits.min(127));
    if rng.chance(1, 2) {
        -v
    } else {
        v
    }
}

fn rand_big(rng: &mut Rng, bits: u32) -> BigInt {
    // random value with `bits` significant bits (<= 255), random sign
    let mut v = BigInt::zero();
    let mut left = bits;
    while left > 0 {
        let k = left.min(64);
        v = (v << k) | BigInt::from(rng.next() >> (64 - k));
        left -= k;
    }
    if bits > 0 {
        v |= BigInt::one() << (bits - 1);
    }
    if rng.chance(1, 2) {
        -v
    } else {
        v
    }
}

pub fn run(cfg: &Cfg, rep: &mut Report) {
    rep.rule = "(1) every triple of the boundary lattice cubed, all three roundings, plain+checked (exhaustive over shards); (2) seeded random triples: bit lengths of x,y uniform in 0..=127, denominator uniform / at the fits-or-not boundary / dividing x exactly; Wad pairs and pow (base,exponent) likewise; I256 operands whose product fits 256 bits. Distinct case = (function, rounding, sign pattern of x,y,d, product fits i128?, quotient fits?, inexact?); cases refused only because d == 0 with nothing else varying collapse into one case per sign pattern. Wad::pow also at the edge of the range: whole-number bases at the last exponent that fits and its neighbours, and for every exponent 1..=140 (and some larger) the largest base that still fits (bisection on the reference) with its neighbours, both signs.".into();
    let mut c = mk();
    let lat = lattice(cfg.thorough());
    let n = lat.len();
    let total = (n * n * n) as u64;
    // --- 1. lattice cubed, exhaustive across shards ---
    rep.begin_history(0);
    let mut k: u64 = 0;
    let mut done = 0u64;
    for &x in &lat {
        for &y in &lat {
            for &d in &lat {
                k += 1;
                if k % cfg.nshards as u64 != cfg.shard as u64 {
                    continue;
                }
                check_triple(&c, rep, x, y, d, true);
                done += 1;
                if done % 4000 == 0 {
                    c = mk();
                }
            }
        }
    }
    rep.count_n("lattice_triples", done);
    rep.notes.push(format!("lattice of {n} values, {total} triples over all shards, exhaustive"));
    rep.sample(json!({"kind":"lattice","values": lat.iter().map(|v| v.to_string()).collect::<Vec<_>>() }));
    // wad over lattice pairs
    let mut k = 0u64;
    for &a in &lat {
        for &b in &lat {
            k += 1;
            if k % cfg.nshards as u64 != cfg.shard as u64 {
                continue;
            }
            check_wad(&c, rep, a, b, true);
        }
    }
    // pow: lattice bases x exponent list
    let exps: Vec<u32> = vec![0, 1, 2, 3, 4, 5, 7, 8, 10, 16, 31, 32, 33, 64, 100, 255, 256, 1000, 65535, u32::MAX - 1, u32::MAX];
    let mut bases: Vec<i128> = lat.clone();
    for m in [1i128, 2, 3, 10, 99, 100, 101, 1_000, 1_000_000] {
        bases.push(WAD_SCALE / 100 * m);
        bases.push(-(WAD_SCALE / 100 * m));
    }
    bases.extend([WAD_SCALE - 1, WAD_SCALE + 1, -WAD_SCALE, -WAD_SCALE + 1, 999_999_999, 1_000_000_001]);
    let mut k = 0u64;
    for &b in &bases {
        for &x in &exps {
            k += 1;
            if k % cfg.nshards as u64 != cfg.shard as u64 {
                continue;
            }
            check_pow(&c, rep, b, x);
        }
    }
    // pow at the edge of the representable range: for whole-number bases the last exponent that fits and
    // its neighbours; for every exponent up to 140 (and a few beyond) the largest base that still fits,
    // found by bisection on the reference, and its neighbours; both signs
    {
        let mut cases: Vec<(i128, u32)> = vec![];
        for kint in [2i128, 3, 4, 5, 7, 10, 16, 100, 1000, 65536, 1_000_000_007] {
            let b = WAD_SCALE * kint;
            let mut n = 1u32;
            while n < 200 && ref_pow(b, n + 1).is_some() {
                n += 1;
            }
            for d in [-1i64, 0, 1, 2] {
                let nn = (n as i64 + d).max(0) as u32;
                for bb in [b, -b, b + 1, b - 1, b + b / 500, -(b + b / 500)] {
                    cases.push((bb, nn));
                }
            }
        }
        let mut exps2: Vec<u32> = (1..=140).collect();
        exps2.extend([200u32, 255, 256, 257, 511, 1000, 4096, 65535, 1 << 20]);
        for n in exps2 {
            let (mut lo, mut hi) = (WAD_SCALE, i128::MAX);
            // invariant: ref_pow(lo, n) fits; ref_pow(hi, n) does not (for n >= 2)
            if ref_pow(hi, n).is_some() {
                lo = hi;
            }
            while hi - lo > 1 {
                let mid = lo + (hi - lo) / 2;
                if ref_pow(mid, n).is_some() {
                    lo = mid;
                } else {
                    hi = mid;
                }
            }
            for d in -2i128..=2 {
                if let Some(b) = lo.checked_add(d) {
                    cases.push((b, n));
                    cases.push((-b, n));
                }
            }
        }
        let mut k = 0u64;
        for (b, n) in cases {
            k += 1;
            if k % cfg.nshards as u64 != cfg.shard as u64 {
                continue;
            }
            check_pow(&c, rep, b, n);
            rep.count("pow_at_the_edge_of_the_range");
        }
    }
    rep.end_history();

    // --- 2. random values of every bit length ---
    let nrand: u64 = cfg.pick(100_000, 2_000_000);
    let mut samples = vec![];
    for h in 1..=nrand {
        if !cfg.runs(h) {
            continue;
        }
        if h % 4000 == 0 {
            c = mk();
        }
        let mut rng = Rng::for_history(cfg.seed, "C12", cfg.shard, h);
        rep.cur_hist = h;
        let bx = rng.below(128) as u32;
        let by = rng.below(128) as u32;
        let mode = rng.below(4);
        let x = rand_signed(&mut rng, bx);
        let y = rand_signed(&mut rng, by);
        let d = match mode {
            0 => { let b = rng.below(128) as u32; rand_signed(&mut rng, b) }
            1 | 2 => {
                // denominator near the boundary where the quotient just (does not) fit(s)
                let t = (bx + by) as i64 - 127 + rng.range(-2, 2);
                rand_signed(&mut rng, t.clamp(1, 127) as u32)
            }
            _ => {
                // exact division: d divides x
                let bd = rng.below(bx.max(1) as u64) as u32;
                let d = rand_signed(&mut rng, bd.max(1));
                d
            }
        };
        let (x, d) = if mode == 3 && d != 0 { (x / d * d, d) } else { (x, d) };
        let plain = h % 4 == 0 || cfg.thorough();
        check_triple(&c, rep, x, y, d, plain);
        if samples.len() < 3 {
            samples.push(json!({"x": x.to_string(), "y": y.to_string(), "d": d.to_string()}));
        }
        // wad pairs
        let ab = rng.below(128) as u32;
        let a = rand_signed(&mut rng, ab);
        let b = if rng.chance(1, 2) {
            let t = (a.unsigned_abs().checked_ilog2().unwrap_or(0) as i64 + 60 - 127 + rng.range(-2, 2)).clamp(1, 127);
            rand_signed(&mut rng, t as u32)
        } else {
            let b = rng.below(128) as u32;
            rand_signed(&mut rng, b)
        };
        check_wad(&c, rep, a, b, plain);
        if h % 8 == 0 {
            let bb = 40 + rng.below(40) as u32;
            let base = rand_signed(&mut rng, bb);
            let ex = *rng.pick(&[2u32, 3, 4, 5, 6, 7, 9, 12, 17, 30, 50, 77, 128, 300]);
            check_pow(&c, rep, base, ex);
        }
        // I256
        let b1 = rng.below(255) as u32;
        let b2 = rng.below((255 - b1) as u64 + 1) as u32;
        let x2 = rand_big(&mut rng, b1);
        let y2 = rand_big(&mut rng, b2);
        let d2 = match rng.below(5) {
            0 => BigInt::zero(),
            // an exact division with a large divisor: d = a factor of x times a factor of y
            4 => {
                let fx = rand_big(&mut rng, (b1 / 2).max(1));
                let fy = rand_big(&mut rng, (b2 / 2).max(1));
                let (x3, y3) = (&x2 - (&x2 % if fx.is_zero() { BigInt::one() } else { fx.clone() }), &y2 - (&y2 % if fy.is_zero() { BigInt::one() } else { fy.clone() }));
                let dd = &fx * &fy;
                if !dd.is_zero() && fits256(&(&x3 * &y3)) {
                    check_256(&c, rep, &x3, &y3, &dd, plain && h % 2 == 0);
                    check_256(&c, rep, &x3, &y3, &-&dd, plain && h % 2 == 1);
                    rep.count("i256_exact_large_divisor");
                }
                dd
            }
            1 => { let b = rng.below(255) as u32 + 1; rand_big(&mut rng, b) }
            2 => { let b = rng.below(127) as u32 + 1; BigInt::from(rand_signed(&mut rng, b)) }
            _ => {
                let b = rng.below(b1.max(1) as u64) as u32 + 1;
                let dd = rand_big(&mut rng, b);
                dd
            }
        };
        check_256(&c, rep, &x2, &y2, &d2, plain && h % 2 == 0);
    }
    // I256 boundary lattice
    {
        let one = BigInt::one();
        let p255: BigInt = &one << 255u32;
        let p128: BigInt = &one << 128u32;
        let p127: BigInt = &one << 127u32;
        let l256: Vec<BigInt> = vec![
            -&p255,
            -&p255 + 1,
            -&p128,
            -&p127,
            BigInt::from(-2),
            -&one,
            BigInt::zero(),
            one.clone(),
            BigInt::from(2),
            BigInt::from(3),
            BigInt::from(WAD_SCALE),
            p127.clone(),
            p128.clone(),
            &p255 - 2,
            &p255 - 1,
            // neighbours of the i128 / u128 boundaries and of the WAD scale, small odd values
            &p127 - 1,
            &p127 + 1,
            -&p127 - 1,
            -&p127 + 1,
            &p128 - 1,
            &p128 + 1,
            -&p128 + 1,
            BigInt::from(WAD_SCALE) + 1,
            BigInt::from(WAD_SCALE) - 1,
            -BigInt::from(WAD_SCALE),
            BigInt::from(-3),
            BigInt::from(7),
        ];
        // split over the shards by the first operand; the plain (panicking) variants see the lattice too
        for (xi, x) in l256.iter().enumerate() {
            if xi as u32 % cfg.nshards != cfg.shard {
                continue;
            }
            for y in &l256 {
                for d in &l256 {
                    check_256(&c, rep, x, y, d, true);
                }
            }
        }
    }
    for s in samples {
        rep.sample(json!({"kind":"random","triple": s}));
    }
    rep.floor("phantom_overflow_cases", 50, *rep.counters.get("phantom_overflow_cases").unwrap_or(&0));
}
