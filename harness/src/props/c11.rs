//! C11 — an NFT moves only by its owner, its approved account or a live operator (engine: crate::nft).
use crate::nft::{history, Mode, ALL};
use crate::report::Report;
use crate::Cfg;

pub fn run(cfg: &Cfg, rep: &mut Report) {
    rep.rule = "Seeded histories per NFT flavour (base, enumerable, consecutive wrappers, the three examples, a votes-extension wrapper) with EXACT authorization: callers in the roles owner / approved / operator / former owner / stranger, each call signed by the principal alone (1/2) or a uniformly random subset of the 4 accounts; approvals and operator grants with live_until on {0,cur-1,cur,cur+1,..}; ledger moved to {L,L+1,L+ttl} of every live approval and operator grant; min_temp_entry_ttl alternates 1/16. get_approved for every id and is_approved_for_all for every pair are compared after every call. Distinct case = (flavour, op, spender role incl. @L and expired, principal signed?, outcome). The parties are four accounts and the token contract's own address (which can own, receive and be approved, but in whose name nothing can be signed).".into();
    let nh = cfg.pick(5u64, 50);
    let steps = cfg.pick(200usize, 350);
    for (fi, fl) in ALL.iter().enumerate() {
        for k in 0..nh {
            let h = fi as u64 * 1000 + k;
            if cfg.runs(h) {
                history(cfg, rep, *fl, h, steps, Mode::Auth);
            }
        }
    }
    rep.floor_on("transfer_from_ok", 50, &["transfer_from:ok"]);
    rep.floor_on("ledger_moves", 50, &["ledger_moves"]);
}
