//! C08 — a timelocked operation runs once, only after its delay and its predecessor.
//! REF: state machine per operation id; LOG: target invoked exactly once per successful execute;
//! id determinism checked against an independently computed keccak over the XDR encoding.
use crate::args;
use crate::contracts::timelock::{CountTarget, TlWrap};
use crate::report::Report;
use crate::rng::Rng;
use crate::world::{Must, invoke, tag, Fail, World};
use crate::Cfg;
use sha3::{Digest, Keccak256};
use soroban_sdk::xdr::ToXdr;
use soroban_sdk::{Address, Bytes, BytesN, Env, Symbol, Val, Vec as SVec};

#[derive(Clone, Copy, Debug, PartialEq, Eq)]
enum St {
    Unset,
    Pending(u32),
    Done,
}

#[derive(Clone)]
struct Tpl {
    func: &'static str,
    k: u32,
    pred: [u8; 32],
    /// index of the predecessor template, if it is one of ours
    pred_tpl: Option<usize>,
    salt: [u8; 32],
    id: [u8; 32],
}

fn own_hash(e: &Env, target: &Address, func: &str, args: &SVec<Val>, pred: &[u8; 32], salt: &[u8; 32]) -> [u8; 32] {
    let mut data: Vec<u8> = vec![];
    let push = |b: Bytes, data: &mut Vec<u8>| {
        for x in b.iter() {
            data.push(x);
        }
    };
    push(target.clone().to_xdr(e), &mut data);
    push(Symbol::new(e, func).to_xdr(e), &mut data);
    push(args.clone().to_xdr(e), &mut data);
    data.extend_from_slice(pred);
    data.extend_from_slice(salt);
    let mut h = Keccak256::new();
    h.update(&data);
    h.finalize().into()
}

fn state_code(s: St, cur: u32) -> u32 {
    match s {
        St::Unset => 0,
        St::Pending(r) if r > cur => 1,
        St::Pending(_) => 2,
        St::Done => 3,
    }
}

/// A timelock whose minimum delay was never set: nothing can be scheduled (there is no minimum to meet),
/// nothing exists, nothing can be executed; once a minimum (also 0) is set it works.
fn never_initialised(cfg: &Cfg, rep: &mut Report) {
    let h = 60_000u64;
    if cfg.shard != 2 % cfg.nshards || !cfg.runs(h) {
        return;
    }
    rep.begin_history(h);
    let w = World::new(50, 16);
    let e = &w.env;
    e.mock_all_auths();
    let c = e.register(TlWrap, (None::<u32>,));
    let target = e.register(CountTarget, ());
    let zero = BytesN::from_array(e, &[0u8; 32]);
    for first in [0u32, 7] {
        for delay in [0u32, 1, 5, u32::MAX] {
            let a = args!(e, target, Symbol::new(e, "bump"), args!(e, 1u32), zero.clone(), BytesN::from_array(e, &[delay as u8; 32]), delay);
            let got: Result<BytesN<32>, Fail> = invoke(e, &c, "schedule", a);
            rep.evaluations += 1;
            rep.case(format!("never-initialised/schedule/delay={}/{}", delay.min(6), tag(&got)));
            rep.check("sched", got.is_err(), "C08/sched/schedule/accepted-without-a-minimum-delay-in-force", || format!("schedule with delay {delay} on a timelock whose minimum delay was never set: {got:?}"));
        }
        let x: Result<Val, Fail> = invoke(e, &c, "execute", args!(e, target, Symbol::new(e, "bump"), args!(e, 1u32), zero.clone(), BytesN::from_array(e, &[0u8; 32])));
        rep.check("exec", x.is_err(), "C08/exec/execute/never-scheduled", || format!("execute on a never-initialised timelock: {x:?}"));
        let n: u32 = invoke(e, &target, "count", args!(e, 1u32)).must("count");
        rep.check("exec", n == 0, "C08/exec/execute/never-scheduled", || format!("target ran {n} times"));
        // now a minimum is set (0 the first time round, then raised): scheduling at or above it works
        invoke::<()>(e, &c, "set_min_delay", args!(e, first)).unwrap();
        let md: Result<u32, Fail> = invoke(e, &c, "min_delay", args!(e));
        rep.check("ref", md == Ok(first), "C08/ref/min_delay", || format!("min_delay after set_min_delay({first}): {md:?}"));
        let a = args!(e, target, Symbol::new(e, "bump"), args!(e, 2u32 + first), zero.clone(), BytesN::from_array(e, &[9u8; 32]), first);
        let got: Result<BytesN<32>, Fail> = invoke(e, &c, "schedule", a);
        rep.check("ref", got.is_ok(), "C08/ref/schedule/outcome", || format!("schedule with delay {first} after set_min_delay({first}): {got:?}"));
        if first == 0 {
            break;
        }
    }
    rep.count("never_initialised_timelock");
    rep.end_history();
}

fn history(cfg: &Cfg, rep: &mut Report, h: u64, steps: usize) {
    let mut rng = Rng::for_history(cfg.seed, "C08", cfg.shard, h);
    rep.begin_history(h);
    // Ledger sequences close to u32::MAX cannot be produced: the test host's own TTL arithmetic
    // (sequence + min_persistent_entry_ttl) fails with InternalError there. Saturation of the ready
    // ledger is reached through delays up to u32::MAX instead.
    let high = false;
    let start = if high { u32::MAX - 40 - rng.below(20) as u32 } else { 2 + rng.below(100) as u32 };
    let w = World::new(start, 16);
    let e = &w.env;
    e.mock_all_auths();
    let mut min_delay = *rng.pick(&[0u32, 1, 5, 20]);
    let c = e.register(TlWrap, (min_delay,));
    let target = e.register(CountTarget, ());
    rep.op(format!("deploy timelock min_delay={min_delay} ledger={start}"));
    // templates with predecessor links
    let zero = [0u8; 32];
    let mut tpls: Vec<Tpl> = vec![];
    let mk = |tpls: &Vec<Tpl>, func: &'static str, k: u32, pred_tpl: Option<usize>, pred_raw: Option<[u8; 32]>, salt: [u8; 32]| -> Tpl {
        let pred = pred_raw.unwrap_or_else(|| pred_tpl.map_or(zero, |i| tpls[i].id));
        let a = args!(e, k);
        let id = own_hash(e, &target, func, &a, &pred, &salt);
        Tpl { func, k, pred, pred_tpl, salt, id }
    };
    let s1: [u8; 32] = rng.bytes();
    let s2: [u8; 32] = rng.bytes();
    let t0 = mk(&tpls, "bump", 0, None, None, s1);
    tpls.push(t0);
    let t1 = mk(&tpls, "bump", 1, Some(0), None, s1);
    tpls.push(t1);
    let t2 = mk(&tpls, "bump", 2, Some(1), None, s1);
    tpls.push(t2);
    let t3 = mk(&tpls, "bump", 3, None, Some(rng.bytes()), s1); // predecessor never scheduled
    tpls.push(t3);
    let t4 = mk(&tpls, "bump", 0, None, None, s2); // same call as T0, other salt
    tpls.push(t4);
    let t5 = mk(&tpls, "fail", 5, Some(4), None, s2); // target refuses
    tpls.push(t5);
    let t6 = mk(&tpls, "bump", 6, Some(5), None, s2); // predecessor can never be done
    tpls.push(t6);
    let nt = tpls.len();
    // ids: contract's hash == independent hash, pairwise distinct
    let call_args = |t: &Tpl| -> SVec<Val> {
        args!(e, target, Symbol::new(e, t.func), args!(e, t.k), BytesN::from_array(e, &t.pred), BytesN::from_array(e, &t.salt))
    };
    for (i, t) in tpls.iter().enumerate() {
        let got: BytesN<32> = invoke(e, &c, "hash", call_args(t)).must("hash");
        rep.check("id", got.to_array() == t.id, "C08/id/hash_operation/differs-from-keccak-of-xdr", || format!("template {i}: contract id {:?}, own {:?}", got.to_array(), t.id));
        for (j, t2) in tpls.iter().enumerate() {
            if i < j {
                rep.check("id", t.id != t2.id, "C08/id/hash_operation/collision", || format!("templates {i} and {j} share an id"));
            }
        }
    }
    // ids over other targets, functions and argument shapes: equal to the independent hash, all distinct
    {
        let target2 = e.register(CountTarget, ());
        let shapes: Vec<SVec<Val>> = vec![args!(e), args!(e, 0u32), args!(e, 0u32, 0u32), args!(e, args!(e, 0u32)), args!(e, 0u64), args!(e, Symbol::new(e, "bump"))];
        let mut seen: Vec<([u8; 32], String)> = vec![];
        for (ti2, tg) in [&target, &target2].iter().enumerate() {
            for func in ["bump", "fail", "bum"] {
                for (si, a) in shapes.iter().enumerate() {
                    for pred in [zero, s1] {
                        let own = own_hash(e, tg, func, a, &pred, &s1);
                        let got: BytesN<32> = invoke(e, &c, "hash", args!(e, (*tg).clone(), Symbol::new(e, func), a.clone(), BytesN::from_array(e, &pred), BytesN::from_array(e, &s1))).must("hash_operation");
                        let label = format!("target{ti2}.{func}(shape {si}) pred={}", if pred == zero { "none" } else { "some" });
                        rep.check("id", got.to_array() == own, "C08/id/hash_operation/differs-from-keccak-of-xdr", || format!("{label}: contract id {:?}, own {:?}", got.to_array(), own));
                        if let Some((_, other)) = seen.iter().find(|(h, _)| *h == got.to_array()) {
                            rep.check("id", false, "C08/id/hash_operation/collision", || format!("{label} and {other} share an id"));
                        }
                        seen.push((got.to_array(), label));
                    }
                }
            }
        }
        rep.evaluations += seen.len() as u64;
    }
    let mut st = vec![St::Unset; nt];
    let mut executed = vec![0u32; 8]; // per counter key k
    for step in 0..steps {
        let cur = w.ledger();
        // ledger moves to the lattice of pending operations
        if rng.chance(1, 3) {
            let mut t: Vec<u32> = vec![cur.saturating_add(1), cur.saturating_add(3)];
            for s in &st {
                if let St::Pending(r) = s {
                    t.extend([r.saturating_sub(1), *r, r.saturating_add(1)]);
                }
            }
            let t = *rng.pick(&t);
            if t > cur && (high || t < cur.saturating_add(3_000_000)) {
                w.set_ledger(t);
                rep.op(format!("ledger -> {t}"));
                rep.count("ledger_moves");
            }
        }
        let cur = w.ledger();
        let ti = rng.idx(nt);
        let t = tpls[ti].clone();
        let k = rng.below(100);
        let (name, want_ok, got): (&str, bool, Result<Val, Fail>);
        w.reset_budget();
        e.mock_all_auths();
        let pre_state = st[ti];
        let mut delay_used = 0u32;
        if k < 40 {
            let delay = match rng.below(20) {
                0 => 0,
                1 => min_delay.saturating_sub(1),
                2 => min_delay,
                3 => min_delay.saturating_add(1),
                4 => 1_000_000,
                5 => u32::MAX,
                6 => u32::MAX - cur,
                7 => (u32::MAX - cur).saturating_add(1),
                _ => min_delay.saturating_add(rng.below(12) as u32),
            };
            delay_used = delay;
            name = "schedule";
            want_ok = st[ti] == St::Unset && delay >= min_delay;
            let mut a = call_args(&t);
            a.push_back(soroban_sdk::IntoVal::into_val(&delay, e));
            let r: Result<BytesN<32>, Fail> = invoke(e, &c, "schedule", a);
            if let Ok(id) = &r {
                rep.check("id", id.to_array() == t.id, "C08/id/schedule/returned-id", || format!("template {ti}: schedule returned {:?}", id.to_array()));
            }
            got = r.map(|_| Val::VOID.to_val());
            if got.is_ok() {
                st[ti] = St::Pending(cur.saturating_add(delay));
            }
        } else if k < 75 {
            // execute_operation (invokes the target) or set_execute_operation (marks only)
            let mark = rng.chance(1, 3);
            name = if mark { "mark" } else { "execute" };
            let ready = matches!(st[ti], St::Pending(r) if r <= cur);
            let pred_ok = t.pred == zero || t.pred_tpl.map_or(false, |p| st[p] == St::Done);
            want_ok = ready && pred_ok && (mark || t.func != "fail");
            got = invoke(e, &c, name, call_args(&t));
            if got.is_ok() {
                // the statement's conditions, asserted one by one, independent of want_ok
                rep.check("exec", matches!(pre_state, St::Pending(_)), &format!("C08/exec/{name}/not-scheduled-or-done"), || format!("template {ti} executed in state {pre_state:?} at ledger {cur}"));
                rep.check("exec", matches!(pre_state, St::Pending(r) if r <= cur), &format!("C08/exec/{name}/before-ready"), || format!("template {ti} executed at ledger {cur} in state {pre_state:?}"));
                rep.check("exec", pred_ok, &format!("C08/exec/{name}/predecessor-not-done"), || format!("template {ti} executed while predecessor {:?} is {:?}", t.pred_tpl, t.pred_tpl.map(|p| st[p])));
                st[ti] = St::Done;
                if !mark {
                    executed[t.k as usize] += 1;
                }
            }
        } else if k < 90 {
            name = "cancel";
            want_ok = matches!(st[ti], St::Pending(_));
            got = invoke(e, &c, "cancel", args!(e, BytesN::from_array(e, &t.id)));
            if got.is_ok() {
                rep.check("exec", pre_state != St::Done, "C08/exec/cancel/done-operation-cancelled", || format!("template {ti} cancelled in state {pre_state:?}"));
                st[ti] = St::Unset;
            }
        } else {
            name = "set_min_delay";
            let d = *rng.pick(&[0u32, 1, 3, 10, 50, 0, 2, 5, 1, 7, u32::MAX]);
            want_ok = true;
            got = invoke(e, &c, "set_min_delay", args!(e, d));
            if got.is_ok() {
                min_delay = d;
            }
        }
        rep.evaluations += 1;
        rep.op(format!("#{step} @{cur} {name} T{ti}{} -> {} (state before {pre_state:?})", if name == "schedule" { format!(" delay={delay_used}") } else { String::new() }, tag(&got)));
        if let Err(Fail::Budget) = got {
            rep.count("budget_errors");
        }
        let pred_state = t.pred_tpl.map_or(if t.pred == zero { "none" } else { "foreign" }, |p| match st[p] {
            St::Unset => "unset",
            St::Pending(_) => "pending",
            St::Done => "done",
        });
        let pos = match pre_state {
            St::Pending(r) if r == cur => "at-ready",
            St::Pending(r) if r == cur.wrapping_add(1) => "ready-1",
            St::Pending(r) if r.wrapping_add(1) == cur => "ready+1",
            St::Pending(r) if r > cur => "waiting",
            St::Pending(_) => "ready",
            St::Unset => "unset",
            St::Done => "done",
        };
        rep.case(format!("{name}/{pos}/pred={pred_state}/fn={}/{}", t.func, tag(&got)));
        rep.count(&format!("{name}:{}", tag(&got)));
        rep.check("ref", got.is_ok() == want_ok, &format!("C08/ref/{name}/outcome"), || {
            format!("{name} on template {ti} at ledger {cur} (state {pre_state:?}, min_delay {min_delay}, delay {delay_used}, pred {pred_state}): model expects ok={want_ok}, contract answered {got:?}")
        });
        // all states, all counters, after every call
        for (i, tp) in tpls.iter().enumerate() {
            let s: u32 = invoke(e, &c, "state", args!(e, BytesN::from_array(e, &tp.id))).must("state");
            let want = state_code(st[i], cur);
            rep.check("ref", s == want, &format!("C08/ref/{name}/state"), || format!("after {name} T{ti}: template {i} reports state {s}, model {:?} at ledger {cur} (code {want})", st[i]));
            // the stored ready ledger (0 unset, 1 done, else the saturated sum) and the four predicates
            let lo: u32 = invoke(e, &c, "ledger_of", args!(e, BytesN::from_array(e, &tp.id))).must("get_operation_ledger");
            let want_l = match st[i] {
                St::Unset => 0,
                St::Done => 1,
                St::Pending(r) => r,
            };
            rep.check("ref", lo == want_l, &format!("C08/ref/{name}/operation-ledger"), || format!("after {name} T{ti}: get_operation_ledger(template {i}) = {lo}, model {:?} (expected {want_l})", st[i]));
            let pr: (bool, bool, bool, bool) = invoke(e, &c, "predicates", args!(e, BytesN::from_array(e, &tp.id))).must("operation_exists/is_operation_*");
            let wp = (want != 0, want == 1 || want == 2, want == 2, want == 3);
            rep.check("ref", pr == wp, &format!("C08/ref/{name}/predicates"), || format!("after {name} T{ti}: (exists, pending, ready, done) of template {i} = {pr:?}, model state {want} implies {wp:?}"));
        }
        for kk in [0u32, 1, 2, 3, 5, 6] {
            let n: u32 = invoke(e, &target, "count", args!(e, kk)).expect("count");
            rep.check("log", n == executed[kk as usize], &format!("C08/log/{name}/target-invocations"), || {
                format!("target counter {kk} = {n}, successful executes = {}", executed[kk as usize])
            });
        }
        let md: u32 = invoke(e, &c, "min_delay", args!(e)).must("min_delay");
        rep.check("ref", md == min_delay, &format!("C08/ref/{name}/min_delay"), || format!("min_delay {md}, model {min_delay}"));
        rep.evaluations += (nt + 7) as u64;
    }
    rep.end_history();
}

pub fn run(cfg: &Cfg, rep: &mut Report) {
    rep.rule = "Seeded histories of schedule/execute (execute_operation) / mark (set_execute_operation, the entry point self-administered controllers use)/cancel/set_min_delay/ledger moves over 7 operation templates with predecessor links (to done, pending, cancelled, never-scheduled, failing-target ids), delays on {0,min-1,min,min+1,1e6,u32::MAX,MAX-cur,MAX-cur+1}, ledger moved to {ready-1,ready,ready+1}; a timelock whose minimum delay was never set (nothing can be scheduled until one is, 0 included); plus the timelock-controller example's self-administration path (an administrative call consumes the operation): C09's sweep of operation state x payload shape x executor variant and its predecessor cases, reported under C08/controller/. Distinct case = (op, position of cur relative to ready ledger / state, predecessor state, target fn, outcome).".into();
    let nh = cfg.pick(200u64, 5000);
    let steps = cfg.pick(120usize, 250);
    for k in 0..nh {
        if cfg.runs(k) {
            history(cfg, rep, k, steps);
        }
    }
    never_initialised(cfg, rep);
    // the same rule when execution means "an administrative call of the controller consumed the
    // operation": the timelock-controller example's own sweep (C09's cases, re-labelled) - operation
    // state x payload shape x executor variant, and operations scheduled with a predecessor
    rep.rename_prefix = Some(("C09/".into(), "C08/controller/".into()));
    crate::props::c09::systematic(cfg, rep);
    crate::props::c09::predecessor_cases(cfg, rep);
    rep.rename_prefix = None;
    rep.floor_on("executes", 50, &["execute:ok"]);
    rep.floor_on("ledger_moves", 50, &["ledger_moves"]);
}
