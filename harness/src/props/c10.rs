//! C10 — every NFT has exactly one owner and enumerations mirror ownership (engine: crate::nft).
use crate::nft::{history, Mode, ALL};
use crate::report::Report;
use crate::Cfg;

pub fn run(cfg: &Cfg, rep: &mut Report) {
    rep.rule = "Seeded histories per NFT flavour (Base sequential / explicit fresh ids, Enumerable both, Consecutive; wrappers, the three examples and a votes-extension wrapper): mint, batch mint of {1,2,3,5,31,32,33,64,100} (every 4th consecutive history {33,100,3199,3200,3201}; thorough also 32000), transfer, transfer_from, burn, burn_from, self-transfer, by 4 accounts; ids biased to first/last, item (32) and bucket (3200) edges, neighbours of touched ids, burned and beyond-range ids. owner_of is compared with the model for EVERY id in range + 8 after every call while the range is <= 600 (every 25th call up to 4000; stratified sample of 32/256 beyond). Distinct case = (flavour, op, position class of the id, outcome). The parties are four accounts and the token contract's own address (which can own, receive and be approved, but in whose name nothing can be signed).".into();
    let nh = cfg.pick(4u64, 40);
    let steps = cfg.pick(120usize, 250);
    for (fi, fl) in ALL.iter().enumerate() {
        for k in 0..nh {
            let h = fi as u64 * 1000 + k;
            if cfg.runs(h) {
                history(cfg, rep, *fl, h, steps, Mode::Ownership);
            }
        }
    }
    rep.floor_on("owner_of_reads", 10_000, &["owner_of_reads"]);
    rep.floor_on("burns", 50, &["burn:ok", "burn_from:ok"]);
}
