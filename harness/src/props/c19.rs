//! C19 — fee forwarding charges at most the authorized fee for the authorized call only.
//! AUTH (exact entries, authorization tuples differing in one field), REF success oracle and
//! movements, RES after failures, INV allow-list enumeration is a permutation of the allowed set.
use crate::args;
use crate::contracts::timelock::CountTarget;
use crate::contracts::tokens::{LaxToken, TokBase};
use crate::examples::fee_permissioned::FeeForwarder as Permissioned;
use crate::examples::fee_permissionless::FeeForwarder as Permissionless;
use crate::report::Report;
use crate::rng::Rng;
use crate::world::{Must, invoke, tag, Fail, Inv, World};
use crate::Cfg;
use soroban_sdk::{Address, Env, Symbol, Val, Vec as SVec};
use std::collections::BTreeSet;
use stellar_fee_abstraction::FeeAbstractionStorageKey;

fn history(cfg: &Cfg, rep: &mut Report, permissioned: bool, h: u64, steps: usize) {
    let mut rng = Rng::for_history(cfg.seed, "C19", cfg.shard, h);
    rep.begin_history(h);
    let w = World::new(100 + rng.below(30) as u32, if rng.chance(1, 2) { 1 } else { 16 });
    let e = &w.env;
    e.mock_all_auths();
    let (admin, manager, relayer, user, stranger) = (w.account(), w.account(), w.account(), w.account(), w.account());
    let fwd: Address = if permissioned {
        let ex: SVec<Address> = SVec::from_array(e, [relayer.clone()]);
        e.register(Permissioned, (admin.clone(), manager.clone(), ex))
    } else {
        e.register(Permissionless, ())
    };
    let kind = if permissioned { "permissioned" } else { "permissionless" };
    // three library tokens and one deliberately lax token (no sign/expiration checks of its own): what
    // the forwarder promises must not depend on the fee token being strict
    let mut tokens: Vec<Address> = (0..3).map(|_| e.register(TokBase, ())).collect();
    tokens.push(e.register(LaxToken, ()));
    let lax = 3usize;
    let target = e.register(CountTarget, ());
    for t in &tokens {
        invoke::<()>(e, t, "mint", args!(e, user, 10_000i128)).unwrap();
        // the relayer holds funds too, so that a forward whose user is also the fee recipient can succeed
        invoke::<()>(e, t, "mint", args!(e, relayer, 10_000i128)).unwrap();
        // ... and so does the forwarder itself (collected fees): naming it as the user must stay refused
        invoke::<()>(e, t, "mint", args!(e, fwd, 10_000i128)).unwrap();
    }
    let mut allowed: BTreeSet<usize> = BTreeSet::new();
    let mut target_calls: u32 = 0;
    rep.op(format!("deploy {kind} forwarder ledger={}", w.ledger()));
    let bal = |t: &Address, a: &Address| -> i128 { invoke(e, t, "balance", args!(e, a.clone())).must("balance") };
    let alw = |t: &Address, who: &Address| -> i128 { invoke(e, t, "allowance", args!(e, who.clone(), fwd.clone())).must("allowance") };
    for step in 0..steps {
        if rng.chance(1, 10) {
            let t = w.ledger() + if rng.chance(1, 12) { 600_000 } else { 1 + rng.below(20) as u32 };
            w.set_ledger(t);
            rep.op(format!("ledger -> {t}"));
        }
        let cur = w.ledger();
        // ---------------- allow-list history (permissioned only) ----------------
        if permissioned && rng.chance(1, 4) {
            let ti = rng.idx(4);
            let on = rng.chance(1, 2);
            let op = if rng.chance(5, 6) { manager.clone() } else { stranger.clone() };
            let f = if on { "enable_fee_token" } else { "disable_fee_token" };
            let a = args!(e, tokens[ti], op);
            let signed = rng.chance(7, 8);
            if signed {
                w.auth(&[(op.clone(), Inv::new(&fwd, f, a.clone()))]);
            } else {
                w.no_auth();
            }
            let got: Result<(), Fail> = invoke(e, &fwd, f, a);
            rep.evaluations += 1;
            let want = op == manager && signed && (on != allowed.contains(&ti));
            rep.op(format!("#{step} {f}(token {ti}) by {} signed={signed} -> {}", if op == manager { "manager" } else { "stranger" }, tag(&got)));
            rep.case(format!("{kind}/{f}/present={}/manager={}/signed={signed}/{}", allowed.contains(&ti), op == manager, tag(&got)));
            rep.check("ref", got.is_ok() == want, &format!("C19/ref/{kind}/{f}/outcome"), || format!("{f}(token {ti}) with allowed set {allowed:?}: expected ok={want}, got {got:?}"));
            if got.is_ok() {
                if on {
                    allowed.insert(ti);
                } else {
                    allowed.remove(&ti);
                }
            }
            // enumeration mirrors the set
            // raw entries first (reads cannot fail), the library's own answer afterwards
            let (count, listed, index_of): (u32, Vec<usize>, Vec<Option<u32>>) = e.as_contract(&fwd, || {
                let count: u32 = e.storage().instance().get(&FeeAbstractionStorageKey::Count).unwrap_or(0);
                let listed: Vec<usize> = (0..count).map(|i| e.storage().persistent().get::<_, Address>(&FeeAbstractionStorageKey::Token(i)).map_or(usize::MAX, |a| tokens.iter().position(|x| *x == a).unwrap_or(usize::MAX - 1))).collect();
                let index_of: Vec<Option<u32>> = tokens.iter().map(|t| e.storage().persistent().get::<_, u32>(&FeeAbstractionStorageKey::TokenIndex(t.clone()))).collect();
                (count, listed, index_of)
            });
            let mut sorted = listed.clone();
            sorted.sort();
            let wantv: Vec<usize> = allowed.iter().cloned().collect();
            rep.check("inv", count as usize == allowed.len() && sorted == wantv, &format!("C19/inv/{kind}/allow-list-enumeration"), || format!("Count {count}, Token(i) = {listed:?}, allowed set {allowed:?}"));
            let beyond: bool = e.as_contract(&fwd, || e.storage().persistent().has(&FeeAbstractionStorageKey::Token(count)));
            rep.check("inv", !beyond, &format!("C19/inv/{kind}/allow-list-entry-beyond-count"), || format!("Token({count}) exists with Count {count}"));
            // the reverse map: TokenIndex(t) exists exactly for allowed tokens and points at t's slot
            for (i, ix) in index_of.iter().enumerate() {
                let ok = match ix {
                    Some(k) => allowed.contains(&i) && listed.get(*k as usize) == Some(&i),
                    None => !allowed.contains(&i),
                };
                rep.check("inv", ok, &format!("C19/inv/{kind}/allow-list-reverse-index"), || format!("TokenIndex(token {i}) = {ix:?}, Token(i) = {listed:?}, allowed set {allowed:?}"));
            }
            // called natively inside the forwarder's frame: a trap surfaces as a panic of this process
            let flags = std::panic::catch_unwind(std::panic::AssertUnwindSafe(|| e.as_contract(&fwd, || tokens.iter().map(|t| stellar_fee_abstraction::is_allowed_fee_token(e, t)).collect::<Vec<bool>>())));
            let Ok(flags) = flags else {
                rep.check("ref", false, &format!("C19/query/{kind}/is_allowed_fee_token/refused"), || format!("is_allowed_fee_token trapped with allowed set {allowed:?}, Token(i) = {listed:?}, TokenIndex = {index_of:?}: {}", crate::last_panic()));
                rep.end_history();
                return;
            };
            for (i, f) in flags.iter().enumerate() {
                let wantf = allowed.is_empty() || allowed.contains(&i);
                rep.check("ref", *f == wantf, &format!("C19/ref/{kind}/is_allowed_fee_token"), || format!("token {i}: is_allowed {f}, allowed set {allowed:?}"));
            }
            continue;
        }
        // ---------------- collected fees leave the forwarder only when its manager sweeps them ----------------
        if permissioned && rng.chance(1, 12) {
            let ti = rng.idx(4);
            let tok = &tokens[ti];
            let op: Address = if rng.chance(3, 4) { manager.clone() } else { (*rng.pick(&[&stranger, &relayer, &user, &admin])).clone() };
            let recipient: Address = (*rng.pick(&[&stranger, &admin, &user])).clone();
            let a = args!(e, tok.clone(), recipient.clone(), op.clone());
            let signed = rng.chance(5, 6);
            let parties = [&user, &relayer, &fwd, &stranger, &admin, &manager];
            let before: Vec<i128> = parties.iter().map(|p| bal(tok, p)).collect();
            if signed {
                w.auth(&[(op.clone(), Inv::new(&fwd, "sweep_tokens", a.clone()))]);
            } else {
                w.no_auth();
            }
            let got: Result<i128, Fail> = invoke(e, &fwd, "sweep_tokens", a);
            rep.evaluations += 1;
            let after: Vec<i128> = parties.iter().map(|p| bal(tok, p)).collect();
            let held = before[2];
            let want = op == manager && signed && held > 0;
            rep.op(format!("#{step} sweep_tokens(token {ti}) by {} signed={signed}, forwarder holds {held} -> {:?}", if op == manager { "manager" } else { "another account" }, got.as_ref().map_err(|f| f.tag())));
            rep.case(format!("{kind}/sweep_tokens/manager={}/signed={signed}/holds={}/{}", op == manager, held > 0, tag(&got)));
            rep.check("ref", got.is_ok() == want, &format!("C19/sweep/{kind}/sweep_tokens/outcome"), || format!("sweep of token {ti} by manager={} signed={signed} with {held} held: expected ok={want}, got {got:?}", op == manager));
            let mut expect = before.clone();
            if got.is_ok() {
                rep.count("sweeps_ok");
                expect[2] = 0;
                let ri = parties.iter().position(|p| **p == recipient).unwrap();
                expect[ri] += held;
                rep.check("ref", got == Ok(held), &format!("C19/sweep/{kind}/sweep_tokens/reported-amount"), || format!("sweep reported {got:?}, the forwarder held {held}"));
            }
            rep.check("res", after == expect, &format!("C19/sweep/{kind}/sweep_tokens/balances"), || format!("balances [user, relayer, forwarder, stranger, admin, manager] {before:?} -> {after:?}, expected {expect:?} (sweep answered {got:?})"));
            continue;
        }
        // ---------------- pre-existing allowance set by the user directly ----------------
        let ti = rng.idx(4);
        let tok = &tokens[ti];
        if rng.chance(1, 5) {
            e.mock_all_auths();
            let a = *rng.pick(&[0i128, 5, 10, 11, 100]);
            let l = cur + *rng.pick(&[0u32, 1, 30]);
            let _: Result<(), Fail> = invoke(e, tok, "approve", args!(e, user, fwd, a, l));
            rep.op(format!("#{step} user approves forwarder for {a} of token {ti} until {l}"));
        }
        // ---------------- a forward attempt ----------------
        let max: i128 = *rng.pick(&[10i128, 10, 10, 0, -1, 1, 20_000]);
        let fee: i128 = *rng.pick(&[max, max - 1, max + 1, 1, 0, -1, 5, max / 2]);
        let max_live = e.ledger().max_live_until_ledger();
        let exp: u32 = *rng.pick(&[cur, cur, cur + 1, cur + 50, cur.saturating_sub(1), max_live, max_live.saturating_add(1), 0, 1]);
        let fail_target = rng.chance(1, 8);
        let tfn = if fail_target { "fail" } else { "bump" };
        let targs: SVec<Val> = args!(e, 7u32);
        let who_user = match rng.below(12) {
            0 => fwd.clone(), // user equal to the forwarder
            1 => relayer.clone(),
            _ => user.clone(),
        };
        let who_relayer = if rng.chance(1, 8) { stranger.clone() } else { relayer.clone() };
        let recipient = if permissioned { fwd.clone() } else { who_relayer.clone() };
        let call_args = args!(e, tok.clone(), fee, max, exp, target.clone(), Symbol::new(e, tfn), targs.clone(), who_user.clone(), who_relayer.clone());
        // user's authorization tuple: exact, or differing in exactly one field
        let variant = if rng.chance(3, 5) { 0 } else { 1 + rng.below(8) };
        let (a_tok, a_max, a_exp, a_target, a_fn, a_args): (Address, i128, u32, Address, &str, SVec<Val>) = match variant {
            1 => (tokens[(ti + 1) % 4].clone(), max, exp, target.clone(), tfn, targs.clone()),
            2 => (tok.clone(), max + 1, exp, target.clone(), tfn, targs.clone()),
            3 => (tok.clone(), max - 1, exp, target.clone(), tfn, targs.clone()),
            4 => (tok.clone(), max, exp.wrapping_add(1), target.clone(), tfn, targs.clone()),
            5 => (tok.clone(), max, exp, stranger.clone(), tfn, targs.clone()),
            6 => (tok.clone(), max, exp, target.clone(), if tfn == "bump" { "count" } else { "bump" }, targs.clone()),
            7 => (tok.clone(), max, exp, target.clone(), tfn, args!(e, 8u32)),
            _ => (tok.clone(), max, exp, target.clone(), tfn, targs.clone()),
        };
        let user_signs = variant != 8; // variant 8: the user does not sign at all
        let relayer_signs = rng.chance(7, 8);
        let mut entries: Vec<(Address, Inv)> = vec![];
        if user_signs {
            let tuple: SVec<Val> = args!(e, a_tok, a_max, a_exp, a_target, Symbol::new(e, a_fn), a_args);
            let inv = Inv::new(&fwd, "forward", tuple).with(Inv::new(tok, "approve", args!(e, who_user.clone(), fwd.clone(), max, exp)));
            entries.push((who_user.clone(), inv));
        }
        if relayer_signs {
            entries.push((who_relayer.clone(), Inv::new(&fwd, "forward", call_args.clone())));
        }
        // pre-state: every balance of every token for every party (third parties must not move)
        let parties: [&Address; 5] = [&user, &relayer, &stranger, &fwd, &target];
        let snapshot = || -> Vec<i128> { tokens.iter().flat_map(|t| parties.iter().map(|p| bal(t, p)).collect::<Vec<_>>()).collect() };
        let pre_all = snapshot();
        let pre_user = bal(tok, &who_user);
        let pre_rec = bal(tok, &recipient);
        let pre_allow = alw(tok, &who_user);
        let pre_calls: u32 = invoke(e, &target, "count", args!(e, 7u32)).unwrap();
        // oracle
        let token_ok = allowed.is_empty() || allowed.contains(&ti);
        let bounds_ok = fee > 0 && fee <= max;
        let exp_ok = exp >= cur && exp <= max_live;
        let eager = !permissioned;
        let needs_approve = eager || pre_allow < max;
        // the library token validates the expiration of an approve itself; the lax one does not
        let approval_ok = if needs_approve { exp_ok || ti == lax } else { exp >= cur };
        let auth_ok = user_signs && variant == 0 && relayer_signs && (!permissioned || who_relayer == relayer);
        let want = auth_ok && token_ok && who_user != fwd && bounds_ok && approval_ok && pre_user >= fee && !fail_target;
        w.auth(&entries);
        w.reset_budget();
        let got: Result<Val, Fail> = invoke(e, &fwd, "forward", call_args);
        rep.evaluations += 1;
        let post_user = bal(tok, &who_user);
        let post_rec = bal(tok, &recipient);
        let post_allow = alw(tok, &who_user);
        let post_calls: u32 = invoke(e, &target, "count", args!(e, 7u32)).unwrap();
        let post_all = snapshot();
        {
            // entries allowed to move on success: the fee token's balance of the user and of the recipient
            let moved: Vec<(usize, usize, i128, i128)> = (0..pre_all.len()).filter(|i| pre_all[*i] != post_all[*i]).map(|i| (i / 5, i % 5, pre_all[i], post_all[i])).collect();
            let ok = moved.iter().all(|(t, p, _, _)| got.is_ok() && *t == ti && (*parties[*p] == who_user || *parties[*p] == recipient));
            rep.check("fee", ok, &format!("C19/fee/{kind}/forward/other-balance-moved"), || format!("forward ({}) of token {ti} moved (token, party, before, after) {moved:?}; parties are [user, relayer, stranger, forwarder, target]", tag(&got)));
        }
        let feecls = if fee <= 0 { "fee<=0" } else if fee > max { "fee>max" } else if fee == max { "fee=max" } else { "fee<max" };
        let expcls = if exp < cur { "expired" } else if exp == cur { "at-cur" } else if exp > max_live { "beyond-max" } else { "future" };
        let alcls = if pre_allow < max { "allow<max" } else if pre_allow == max { "allow=max" } else { "allow>max" };
        rep.op(format!("#{step} @{cur} forward token {ti} fee {fee} max {max} exp {exp} target.{tfn} user={} relayer={} tuple-variant {variant} relayer_signs {relayer_signs} (allowance {pre_allow}, allowed {allowed:?}) -> {}", if who_user == user { "user" } else if who_user == fwd { "forwarder" } else { "relayer" }, if who_relayer == relayer { "relayer" } else { "stranger" }, tag(&got)));
        rep.case(format!("{kind}/forward/lax-token={}/{feecls}/{expcls}/{alcls}/tuple={variant}/relayer_signs={relayer_signs}/target_ok={}/{}", ti == lax, !fail_target, tag(&got)));
        rep.count(&format!("forward:{}", tag(&got)));
        if got.is_ok() {
            rep.check("auth", user_signs && variant == 0, &format!("C19/auth/{kind}/forward/passed-without-exact-user-authorization"), || format!("forward succeeded with user authorization variant {variant} (0 = exact tuple, 8 = none)"));
            rep.check("auth", relayer_signs, &format!("C19/auth/{kind}/forward/passed-without-relayer-authorization"), || "forward succeeded without the relayer's authorization".to_string());
            if permissioned {
                rep.check("auth", who_relayer == relayer, &format!("C19/auth/{kind}/forward/passed-for-non-executor"), || "forward succeeded for a relayer without the executor role".to_string());
            }
            rep.check("fee", bounds_ok, &format!("C19/fee/{kind}/forward/fee-outside-bounds"), || format!("forward succeeded with fee {fee}, max {max}"));
            rep.check("fee", token_ok, &format!("C19/fee/{kind}/forward/fee-token-not-allowed"), || format!("forward succeeded with token {ti}, allowed set {allowed:?}"));
            // movements: user -fee, recipient +fee (net zero when they coincide), target once
            let (du, dr) = (pre_user - post_user, post_rec - pre_rec);
            let same = who_user == recipient;
            rep.check("fee", if same { du == 0 } else { du == fee && dr == fee }, &format!("C19/fee/{kind}/forward/wrong-amount-moved"), || format!("fee {fee}: user balance moved by -{du}, recipient by +{dr}"));
            rep.check("log", post_calls == pre_calls + 1, &format!("C19/log/{kind}/forward/target-not-invoked-exactly-once"), || format!("target counter {pre_calls} -> {post_calls}"));
            let want_allow = if needs_approve { max - fee } else { pre_allow - fee };
            // what the forwarder may keep afterwards is bounded by what the user authorized minus what
            // was charged (an implementation that leaves less, e.g. resets to zero, is fine)
            rep.check("fee", post_allow <= want_allow, &format!("C19/fee/{kind}/forward/allowance-left-above-authorization"), || format!("allowance {pre_allow} -> {post_allow}, at most {want_allow} may remain (max {max}, fee {fee}, approve issued: {needs_approve})"));
            target_calls += 1;
        } else {
            rep.check("res", post_user == pre_user && post_rec == pre_rec && post_allow == pre_allow && post_calls == pre_calls, &format!("C19/res/{kind}/forward/failed-forward-left-a-trace"), || {
                format!("failed forward ({got:?}): user {pre_user}->{post_user}, recipient {pre_rec}->{post_rec}, allowance {pre_allow}->{post_allow}, target calls {pre_calls}->{post_calls}")
            });
        }
        rep.check("ref", got.is_ok() == want, &format!("C19/ref/{kind}/forward/outcome"), || {
            format!("forward fee {fee} max {max} exp {exp} (cur {cur}, max_live {max_live}) token {ti} allowed {allowed:?} user_is_forwarder {} tuple-variant {variant} relayer_signs {relayer_signs} relayer_is_executor {} allowance {pre_allow} balance {pre_user} target_fails {fail_target}: expected ok={want}, got {got:?}", who_user == fwd, who_relayer == relayer)
        });
    }
    let _ = (target_calls, Env::default);
    rep.end_history();
}

/// `collect_fee` called directly (both approval strategies): the collecting contract itself named as
/// the user is refused and nothing moves, whatever balance it has accumulated; an ordinary user with an
/// allowance pays exactly the fee.
fn direct_collect(cfg: &Cfg, rep: &mut Report, h: u64) {
    let mut rng = Rng::for_history(cfg.seed, "C19", cfg.shard, h);
    rep.begin_history(h);
    let w = World::new(100, 16);
    let e = &w.env;
    e.mock_all_auths_allowing_non_root_auth();
    let c = e.register(crate::contracts::misc::FeeWrap, ());
    let tok = e.register(TokBase, ());
    let (user, rec) = (w.account(), w.account());
    invoke::<()>(e, &tok, "mint", args!(e, c, 5_000i128)).unwrap();
    invoke::<()>(e, &tok, "mint", args!(e, user, 5_000i128)).unwrap();
    let bal = |a: &Address| -> i128 { invoke(e, &tok, "balance", args!(e, a.clone())).must("balance") };
    for step in 0..40 {
        let eager = rng.chance(1, 2);
        let selfuser = rng.chance(1, 2);
        let who = if selfuser { c.clone() } else { user.clone() };
        let max = *rng.pick(&[10i128, 50, 5_000]);
        let fee = *rng.pick(&[1i128, max, max / 2 + 1]);
        let exp = w.ledger() + 10;
        let (b_self, b_user, b_rec) = (bal(&c), bal(&user), bal(&rec));
        e.mock_all_auths_allowing_non_root_auth();
        let got: Result<(), Fail> = invoke(e, &c, "collect", args!(e, tok.clone(), fee, max, exp, who, rec.clone(), eager));
        rep.evaluations += 1;
        let (a_self, a_user, a_rec) = (bal(&c), bal(&user), bal(&rec));
        rep.op(format!("#{step} collect_fee(fee {fee}, max {max}, user = {}, {}) -> {}", if selfuser { "the collecting contract" } else { "user" }, if eager { "Eager" } else { "Lazy" }, tag(&got)));
        rep.case(format!("collect_fee/self={selfuser}/eager={eager}/{}", tag(&got)));
        if selfuser {
            rep.check("fee", got.is_err() && a_self == b_self && a_rec == b_rec, "C19/fee/collect_fee/collecting-contract-charged-as-user", || format!("collect_fee with the collecting contract as user ({}): {got:?}; its balance {b_self} -> {a_self}, recipient {b_rec} -> {a_rec}", if eager { "Eager" } else { "Lazy" }));
        } else if got.is_ok() {
            rep.check("fee", b_user - a_user == fee && a_rec - b_rec == fee && a_self == b_self, "C19/fee/collect_fee/wrong-amount-moved", || format!("fee {fee}: user {b_user} -> {a_user}, recipient {b_rec} -> {a_rec}, collector {b_self} -> {a_self}"));
            rep.count("direct_collect_ok");
        } else {
            rep.check("res", a_user == b_user && a_rec == b_rec && a_self == b_self, "C19/res/collect_fee/failed-collection-left-a-trace", || format!("{got:?}: user {b_user} -> {a_user}, recipient {b_rec} -> {a_rec}"));
        }
    }
    rep.end_history();
}

pub fn run(cfg: &Cfg, rep: &mut Report) {
    rep.rule = "Seeded histories on both fee-forwarder examples over 4 Base fee tokens and a counting target: forward with fee/max from {<=0,1,max-1,max,max+1}, expiration on {cur-1,cur,cur+1,cur+50,max_live,max_live+1}, pre-existing allowance below/at/above max, failing target, user = forwarder, user = relayer, relayer with/without the executor role and with/without its authorization; the user's authorization is the exact tuple (3/5) or differs in exactly one field (token, max+-1, expiration, target, function, arguments) or is absent; allow-list enable/disable histories by manager and stranger; collect_fee called directly under both approval strategies with the collecting contract itself as user. Distinct case = (forwarder, fee class, expiration class, allowance class, tuple variant, relayer signs, target ok, outcome). On the permissioned forwarder, sweep_tokens by the manager / another account, signed or not: collected fees leave the forwarder only with the manager's authorization, in full, to the named recipient.".into();
    let nh = cfg.pick(30u64, 800);
    let steps = cfg.pick(200usize, 400);
    for k in 0..cfg.pick(2u64, 20) {
        if cfg.runs(700_000 + k) {
            direct_collect(cfg, rep, 700_000 + k);
        }
    }
    for k in 0..nh {
        if cfg.runs(k) {
            history(cfg, rep, true, k, steps);
        }
        if cfg.runs(1000 + k) {
            history(cfg, rep, false, 1000 + k, steps);
        }
    }
    rep.floor_on("forward_ok", 100, &["forward:ok"]);
}
