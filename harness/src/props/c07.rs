//! C07 — admin and ownership change hands only through a live two-step handshake.
//! REF: latest-offer model; AUTH: exact authorization sets; ledger moved to the expiry lattice of
//! EVERY offer made so far (an offer replacing a longer-lived one is probed after its own expiry).
use crate::args;
use crate::contracts::access::AcWrap;
use crate::examples;
use crate::report::Report;
use crate::rng::Rng;
use crate::world::{invoke, tag, Fail, Inv, World};
use crate::Cfg;
use soroban_sdk::{Address, Symbol, Val, Vec as SVec};

#[derive(Clone, Copy, PartialEq, Eq, Debug)]
pub enum Kind {
    Ownable,
    Admin,
}

impl Kind {
    fn name(&self) -> &'static str {
        match self {
            Kind::Ownable => "ownable",
            Kind::Admin => "access_control",
        }
    }
    fn f_offer(&self) -> &'static str {
        match self {
            Kind::Ownable => "transfer_ownership",
            Kind::Admin => "transfer_admin_role",
        }
    }
    fn f_accept(&self) -> &'static str {
        match self {
            Kind::Ownable => "accept_ownership",
            Kind::Admin => "accept_admin_transfer",
        }
    }
    fn f_renounce(&self) -> &'static str {
        match self {
            Kind::Ownable => "renounce_ownership",
            Kind::Admin => "renounce_admin",
        }
    }
    fn f_get(&self) -> &'static str {
        match self {
            Kind::Ownable => "get_owner",
            Kind::Admin => "get_admin",
        }
    }
    fn f_guarded(&self) -> &'static str {
        match self {
            Kind::Ownable => "increment",
            Kind::Admin => "g_admin",
        }
    }
}

#[derive(Clone, Debug)]
enum Op {
    Offer { new: usize, l: u32 },
    Accept,
    Renounce,
    Guarded,
}

fn history(cfg: &Cfg, rep: &mut Report, kind: Kind, h: u64, steps: usize) {
    let mut rng = Rng::for_history(cfg.seed, "C07", cfg.shard, h);
    rep.begin_history(h);
    // the property prescribes the configuration in which storage lifetime == requested lifetime
    let w = World::new(100 + rng.below(20) as u32, 1);
    let e = &w.env;
    let n = 4;
    let u = w.accounts(n);
    let c: Address = match kind {
        Kind::Ownable => e.register(examples::ownable::ExampleContract, (u[0].clone(),)),
        Kind::Admin => e.register(AcWrap, (u[0].clone(),)),
    };
    let mut holder: Option<usize> = Some(0);
    let mut pending: Option<(usize, u32)> = None;
    let mut all_offers: Vec<u32> = vec![];
    let mut accepted_once = false;
    rep.op(format!("deploy {} holder=0 ledger={}", kind.name(), w.ledger()));
    let get_holder = |w: &World| -> Option<usize> {
        let r: Option<Address> = invoke(&w.env, &c, kind.f_get(), args!(&w.env)).expect("holder getter");
        r.map(|a| u.iter().position(|x| *x == a).unwrap_or(usize::MAX))
    };
    for step in 0..steps {
        let cur = w.ledger();
        if rng.chance(1, 3) && !all_offers.is_empty() {
            // move to the lattice of any offer ever made, not only the latest one
            let l = *rng.pick(&all_offers);
            let mut t: Vec<u32> = vec![l.saturating_sub(1), l, l.saturating_add(1), cur + 1];
            if let Some((_, pl)) = pending {
                t.extend([pl, pl.saturating_add(1)]);
            }
            // (rarely far beyond every lifetime extension: the holder must not lapse, a dead offer stays dead)
            let t = if rng.chance(1, 25) { cur + 1_700_000 } else { *rng.pick(&t) };
            if t > cur && (t < cur + 200_000 || t == cur + 1_700_000) {
                w.set_ledger(t);
                rep.op(format!("ledger -> {t}"));
                rep.count("ledger_moves");
                let hnow = get_holder(&w);
                rep.check("ref", hnow == holder, &format!("C07/ref/{}/ledger-move/holder", kind.name()), || {
                    format!("holder changed from {holder:?} to {hnow:?} by moving the ledger to {t}")
                });
            }
        }
        let cur = w.ledger();
        let max_live = e.ledger().max_live_until_ledger();
        let live = pending.map_or(false, |(_, l)| cur <= l);
        let op = match rng.below(10) {
            0..=3 => {
                let new = rng.idx(n);
                let l = match rng.below(12) {
                    0 => cur.saturating_sub(1),
                    1 => cur,
                    2 => cur + 1,
                    3 => cur + 2 + rng.below(8) as u32,
                    4 => cur + 50 + rng.below(50) as u32,
                    5 => cur + 1000 + rng.below(1000) as u32,
                    6 => max_live,
                    7 => max_live.saturating_add(1),
                    8 | 9 => 0, // cancel
                    _ => cur + 1 + rng.below(30) as u32,
                };
                // cancel mostly names the pending account, sometimes another
                let new = if l == 0 && rng.chance(3, 4) { pending.map_or(new, |p| p.0) } else { new };
                Op::Offer { new, l }
            }
            4..=6 => Op::Accept,
            7 => Op::Renounce,
            _ => Op::Guarded,
        };
        // principal per the documentation
        let principal: Option<usize> = match &op {
            Op::Offer { .. } | Op::Renounce | Op::Guarded => holder,
            Op::Accept => pending.map(|p| p.0),
        };
        let signers: Vec<usize> = if rng.chance(1, 2) {
            principal.into_iter().collect()
        } else {
            let mask = rng.below(1 << n);
            (0..n).filter(|i| mask >> i & 1 == 1).collect()
        };
        let authorized = principal.map_or(false, |p| signers.contains(&p));
        // model verdict
        let want_ok = match &op {
            Op::Offer { new, l } => {
                holder.is_some()
                    && authorized
                    && if *l == 0 { live && pending.unwrap().0 == *new } else { *l >= cur && *l <= max_live }
            }
            Op::Accept => live && authorized && (kind == Kind::Ownable || holder.is_some()),
            Op::Renounce => holder.is_some() && authorized && !live,
            Op::Guarded => holder.is_some() && authorized,
        };
        let (f, a): (&str, SVec<Val>) = match &op {
            Op::Offer { new, l } => (kind.f_offer(), args!(e, u[*new], *l)),
            Op::Accept => (kind.f_accept(), args!(e)),
            Op::Renounce => (kind.f_renounce(), args!(e)),
            Op::Guarded => (kind.f_guarded(), args!(e)),
        };
        let inv = Inv::new(&c, f, a.clone());
        let entries: Vec<(Address, Inv)> = signers.iter().map(|i| (u[*i].clone(), inv.clone())).collect();
        w.auth(&entries);
        w.reset_budget();
        let got: Result<Val, Fail> = invoke(e, &c, f, a);
        rep.evaluations += 1;
        rep.op(format!("#{step} @{cur} {op:?} signed by {signers:?} -> {} (model: holder={holder:?} pending={pending:?})", tag(&got)));
        if let Err(Fail::Budget) = got {
            rep.count("budget_errors");
        }
        let opn = match &op {
            Op::Offer { l: 0, .. } => "cancel",
            Op::Offer { .. } => "offer",
            Op::Accept => "accept",
            Op::Renounce => "renounce",
            Op::Guarded => "guarded",
        };
        let rel = match pending {
            None => "no-offer",
            Some((_, l)) if cur < l => "cur<L",
            Some((_, l)) if cur == l => "cur=L",
            _ => "cur>L",
        };
        let earlier = match (pending, all_offers.len()) {
            (Some((_, l)), k) if k >= 2 => {
                let prev = all_offers[k - 2];
                if prev > l {
                    "earlier-longer"
                } else {
                    "earlier-shorter"
                }
            }
            _ => "no-earlier",
        };
        rep.case(format!("{}/{opn}/{rel}/{earlier}/auth={authorized}/{}", kind.name(), tag(&got)));
        rep.count(&format!("{opn}:{}", tag(&got)));
        let site = format!("{}/{opn}", kind.name());
        if got.is_ok() {
            rep.check("auth", authorized, &format!("C07/auth/{site}/succeeded-without-principal"), || {
                format!("{op:?} at ledger {cur} succeeded; principal {principal:?}, signers {signers:?}")
            });
            if let Op::Accept = op {
                rep.check("handshake", live, &format!("C07/handshake/{site}/accepted-dead-offer"), || {
                    format!("accept at ledger {cur} succeeded although the latest offer is {pending:?} (expired, cancelled, replaced or consumed); offers made so far expire at {all_offers:?}")
                });
                if accepted_once && !live {
                    rep.count("double_accept");
                }
            }
            if let Op::Renounce = op {
                rep.check("handshake", !live, &format!("C07/handshake/{site}/renounced-with-live-offer"), || {
                    format!("renounce at ledger {cur} succeeded with live offer {pending:?}")
                });
            }
        }
        rep.check("ref", got.is_ok() == want_ok, &format!("C07/ref/{site}/outcome"), || {
            format!("{op:?} at ledger {cur} signed by {signers:?}: model expects ok={want_ok} (holder {holder:?}, pending {pending:?}, live={live}), contract answered {got:?}")
        });
        if got.is_ok() {
            match &op {
                Op::Offer { new, l } => {
                    if *l == 0 {
                        pending = None;
                    } else {
                        pending = Some((*new, *l));
                        all_offers.push(*l);
                    }
                }
                Op::Accept => {
                    if let Some((p, _)) = pending {
                        holder = Some(p);
                    }
                    pending = None;
                    accepted_once = true;
                }
                Op::Renounce => holder = None,
                Op::Guarded => {}
            }
        }
        let hnow = get_holder(&w);
        rep.evaluations += 1;
        rep.check("ref", hnow == holder, &format!("C07/ref/{site}/holder"), || format!("after {op:?}: holder is {hnow:?}, model {holder:?}"));
        if hnow != holder {
            holder = hnow.filter(|i| *i != usize::MAX); // resynchronise so that one defect yields one signature
        }
        // once renounced nothing more can happen: restart material by ending the history early
        if holder.is_none() && step > 20 && rng.chance(1, 4) {
            break;
        }
    }
    let _ = Symbol::new(e, "x");
    rep.end_history();
}

pub fn run(cfg: &Cfg, rep: &mut Report) {
    rep.rule = "Seeded histories of offer(new, live_until on {cur-1,cur,cur+1,..,max,max+1,0=cancel}) / accept / renounce / owner-guarded call on the ownable example and an AccessControl wrapper, min_temp_entry_ttl=1, each call signed by the principal alone (1/2) or a uniformly random subset of the 4 accounts; ledger moved to {L-1,L,L+1} of ANY offer made so far. Distinct case = (contract, op, position of cur relative to latest live_until, whether the replaced offer was longer or shorter lived, principal signed?, outcome).".into();
    let nh = cfg.pick(400u64, 50_000);
    let steps = cfg.pick(60usize, 120);
    for (ki, kind) in [Kind::Ownable, Kind::Admin].iter().enumerate() {
        for k in 0..nh {
            let h = ki as u64 * 100_000 + k;
            if cfg.runs(h) {
                history(cfg, rep, *kind, h, steps);
            }
        }
    }
    rep.floor_on("accept_ok", 20, &["accept:ok"]);
    rep.floor_on("ledger_moves", 50, &["ledger_moves"]);
}
