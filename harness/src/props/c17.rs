//! C17 — Merkle proofs verify only true membership and each leaf is claimed once.
//! DIFF against an independent tree builder (sorted-pair with promotion of odd nodes; positional with
//! unique filler padding), single-corruption sweep; REF claimed-set model for the distributor.
use crate::args;
use crate::contracts::merkle::{DistC, MerkleC, Receiver};
use crate::contracts::tokens::TokBase;
use crate::examples::fungible_merkle_airdrop::AirdropContract;
use crate::report::Report;
use crate::rng::Rng;
use crate::world::{Must, invoke, tag, Fail, World};
use crate::Cfg;
use sha2::Digest;
use soroban_sdk::xdr::ToXdr;
use soroban_sdk::{Address, BytesN, Env, Val, Vec as SVec};
use std::collections::BTreeSet;

type H32 = [u8; 32];

fn hash(keccak: bool, a: &[u8], b: &[u8]) -> H32 {
    if keccak {
        let mut h = sha3::Keccak256::new();
        h.update(a);
        h.update(b);
        h.finalize().into()
    } else {
        let mut h = sha2::Sha256::new();
        h.update(a);
        h.update(b);
        h.finalize().into()
    }
}

/// Sorted-pair tree: pairs hashed as H(min ‖ max); an odd node is promoted unchanged.
fn build_sorted(keccak: bool, leaves: &[H32]) -> (H32, Vec<Vec<H32>>) {
    let n = leaves.len();
    let mut proofs: Vec<Vec<H32>> = vec![vec![]; n];
    let mut level: Vec<(H32, Vec<usize>)> = leaves.iter().enumerate().map(|(i, l)| (*l, vec![i])).collect();
    while level.len() > 1 {
        let mut next = vec![];
        let mut i = 0;
        while i < level.len() {
            if i + 1 < level.len() {
                let (a, ia) = &level[i];
                let (b, ib) = &level[i + 1];
                for x in ia {
                    proofs[*x].push(*b);
                }
                for x in ib {
                    proofs[*x].push(*a);
                }
                let hsh = if a <= b { hash(keccak, a, b) } else { hash(keccak, b, a) };
                let mut m = ia.clone();
                m.extend(ib);
                next.push((hsh, m));
                i += 2;
            } else {
                next.push(level[i].clone());
                i += 1;
            }
        }
        level = next;
    }
    (level[0].0, proofs)
}

/// Sorted-pair tree in which an odd node is paired with a copy of itself (the other common way of
/// building such trees): the proof of its members then contains a sibling EQUAL to the running node.
fn build_sorted_dup(keccak: bool, leaves: &[H32]) -> (H32, Vec<Vec<H32>>) {
    let n = leaves.len();
    let mut proofs: Vec<Vec<H32>> = vec![vec![]; n];
    let mut level: Vec<(H32, Vec<usize>)> = leaves.iter().enumerate().map(|(i, l)| (*l, vec![i])).collect();
    while level.len() > 1 {
        let mut next = vec![];
        let mut i = 0;
        while i < level.len() {
            let (a, ia) = level[i].clone();
            let (b, ib) = if i + 1 < level.len() { level[i + 1].clone() } else { (a, vec![]) };
            for x in &ia {
                proofs[*x].push(b);
            }
            for x in &ib {
                proofs[*x].push(a);
            }
            let hsh = if a <= b { hash(keccak, &a, &b) } else { hash(keccak, &b, &a) };
            let mut m = ia.clone();
            m.extend(&ib);
            next.push((hsh, m));
            i += 2;
        }
        level = next;
    }
    (level[0].0, proofs)
}

/// Positional tree: H(left ‖ right); a level of odd length is padded with a filler unique to that
/// level, so that no two (index, leaf) pairs share a proof.
fn build_positional(keccak: bool, leaves: &[H32]) -> (H32, Vec<Vec<H32>>) {
    let n = leaves.len();
    let mut proofs: Vec<Vec<H32>> = vec![vec![]; n];
    let mut level: Vec<H32> = leaves.to_vec();
    let mut members: Vec<Vec<usize>> = (0..n).map(|i| vec![i]).collect();
    let mut depth = 0u8;
    while level.len() > 1 {
        if level.len() % 2 == 1 {
            level.push(hash(keccak, b"filler", &[depth]));
            members.push(vec![]);
        }
        let mut next = vec![];
        let mut nm = vec![];
        for i in (0..level.len()).step_by(2) {
            for x in &members[i] {
                proofs[*x].push(level[i + 1]);
            }
            for x in &members[i + 1] {
                proofs[*x].push(level[i]);
            }
            next.push(hash(keccak, &level[i], &level[i + 1]));
            let mut m = members[i].clone();
            m.extend(&members[i + 1]);
            nm.push(m);
        }
        level = next;
        members = nm;
        depth += 1;
    }
    (level[0], proofs)
}

fn to_vec(e: &Env, p: &[H32]) -> SVec<BytesN<32>> {
    let mut v = SVec::new(e);
    for x in p {
        v.push_back(BytesN::from_array(e, x));
    }
    v
}

fn verifier_sweep(cfg: &Cfg, rep: &mut Report) {
    let maxn = cfg.pick(65usize, 400);
    let mut k = 0u64;
    for keccak in [false, true] {
        for positional in [false, true] {
            for n in 1..=maxn {
                k += 1;
                if k % cfg.nshards as u64 != cfg.shard as u64 || !cfg.runs(k) {
                    continue;
                }
                let mut rng = Rng::for_history(cfg.seed, "C17", 0, k);
                rep.begin_history(k);
                let w = World::new(10, 16);
                let e = &w.env;
                let c = e.register(MerkleC, ());
                let leaves: Vec<H32> = (0..n).map(|_| rng.bytes()).collect();
                let (root, proofs) = if positional { build_positional(keccak, &leaves) } else { build_sorted(keccak, &leaves) };
                let f = match (keccak, positional) {
                    (false, false) => "verify_sha",
                    (true, false) => "verify_keccak",
                    (false, true) => "verify_idx_sha",
                    (true, true) => "verify_idx_keccak",
                };
                let call = |proof: &[H32], root: &H32, leaf: &H32, index: u32| -> Result<bool, Fail> {
                    let mut a = args!(e, to_vec(e, proof), BytesN::from_array(e, root), BytesN::from_array(e, leaf));
                    if positional {
                        a.push_back(soroban_sdk::IntoVal::into_val(&index, e));
                    }
                    invoke(e, &c, f, a)
                };
                let form = if positional { "positional" } else { "sorted" };
                let hn = if keccak { "keccak" } else { "sha256" };
                rep.op(format!("tree {hn}/{form} n={n}"));
                // per-leaf work is bounded for big trees: all leaves up to 40, then a sample incl. first/last
                let idxs: Vec<usize> = if n <= 40 { (0..n).collect() } else { let mut v = vec![0, 1, n / 2, n - 2, n - 1]; v.extend((0..10).map(|_| rng.idx(n))); v.sort(); v.dedup(); v };
                for i in idxs {
                    let p = &proofs[i];
                    let pos = if i == 0 { "first" } else if i == n - 1 { "last" } else { "inner" };
                    let mut check = |rep: &mut Report, kind: &str, got: Result<bool, Fail>, want_true: bool| {
                        rep.evaluations += 1;
                        rep.case(format!("{hn}/{form}/n-class={}/{pos}/{kind}/{}", match n { 1 => "1", 2 => "2", 3..=8 => "3-8", 9..=33 => "9-33", _ => ">33" }, match &got { Ok(b) => b.to_string(), Err(f) => f.tag() }));
                        if want_true {
                            rep.check("honest", got == Ok(true), &format!("C17/honest/{f}/honest-proof-rejected"), || format!("{hn} {form} tree of {n} leaves: honest proof of leaf {i} (len {}) -> {got:?}", p.len()));
                        } else {
                            rep.check("corrupt", got != Ok(true), &format!("C17/corrupt/{f}/accepted/{kind}"), || format!("{hn} {form} tree of {n} leaves, leaf {i}: corruption '{kind}' was accepted"));
                        }
                    };
                    check(rep, "honest", call(p, &root, &leaves[i], i as u32), true);
                    // one bit in each proof element
                    for j in 0..p.len() {
                        let mut q = p.clone();
                        q[j][rng.idx(32)] ^= 1 << rng.idx(8);
                        check(rep, "proof-bit", call(&q, &root, &leaves[i], i as u32), false);
                    }
                    if p.len() >= 2 {
                        let j = rng.idx(p.len() - 1);
                        if p[j] != p[j + 1] {
                            let mut q = p.clone();
                            q.swap(j, j + 1);
                            check(rep, "proof-swap", call(&q, &root, &leaves[i], i as u32), false);
                        }
                        check(rep, "proof-drop-first", call(&p[1..], &root, &leaves[i], (i as u32) >> 1), false);
                    }
                    if !p.is_empty() {
                        check(rep, "proof-drop-last", call(&p[..p.len() - 1], &root, &leaves[i], (i as u32) & ((1u32 << (p.len() - 1)) - 1)), false);
                        let mut q = p.clone();
                        q.push(*p.last().unwrap());
                        check(rep, "proof-dup-last", call(&q, &root, &leaves[i], i as u32), false);
                    }
                    let mut q = p.clone();
                    q.push(rng.bytes());
                    check(rep, "proof-append", call(&q, &root, &leaves[i], i as u32), false);
                    // an honest proof with one more node of a special value anywhere in it: all zero (what a
                    // generator may emit as a placeholder), all ones, the leaf itself, the root
                    for (name, node) in [("zero", [0u8; 32]), ("ones", [0xFFu8; 32]), ("leaf", leaves[i]), ("root", root)] {
                        let mut at = vec![0usize, p.len()];
                        if p.len() >= 2 {
                            at.push(1 + rng.idx(p.len() - 1));
                        }
                        at.dedup();
                        for pos in at {
                            let mut q = p.clone();
                            q.insert(pos, node);
                            check(rep, &format!("proof-insert-{name}-node"), call(&q, &root, &leaves[i], i as u32), false);
                        }
                    }
                    // the proof handed over as a raw vector in which an entry is no 32-byte string (a number,
                    // void, a byte string of 31 / 33 bytes, a symbol): an honest proof with such an entry
                    // anywhere in it is no proof
                    {
                        let junk: [(&str, Val); 5] = [
                            ("u32", soroban_sdk::IntoVal::into_val(&7u32, e)),
                            ("void", Val::VOID.to_val()),
                            ("31-bytes", soroban_sdk::IntoVal::into_val(&soroban_sdk::Bytes::from_slice(e, &[1u8; 31]), e)),
                            ("33-bytes", soroban_sdk::IntoVal::into_val(&soroban_sdk::Bytes::from_slice(e, &[1u8; 33]), e)),
                            ("symbol", soroban_sdk::IntoVal::into_val(&soroban_sdk::Symbol::new(e, "x"), e)),
                        ];
                        let (name, jv) = &junk[rng.idx(5)];
                        let pos = *rng.pick(&[0usize, p.len(), p.len() / 2]);
                        let mut raw: SVec<Val> = SVec::new(e);
                        for (k, x) in p.iter().enumerate() {
                            if k == pos {
                                raw.push_back(*jv);
                            }
                            raw.push_back(soroban_sdk::IntoVal::into_val(&BytesN::from_array(e, x), e));
                        }
                        if pos >= p.len() {
                            raw.push_back(*jv);
                        }
                        let mut a = args!(e, raw, BytesN::from_array(e, &root), BytesN::from_array(e, &leaves[i]));
                        if positional {
                            a.push_back(soroban_sdk::IntoVal::into_val(&(i as u32), e));
                        }
                        let got: Result<bool, Fail> = invoke(e, &c, f, a);
                        check(rep, &format!("proof-with-ill-typed-entry-{name}"), got, false);
                    }
                    if n > 1 {
                        let j = (i + 1 + rng.idx(n - 1)) % n;
                        check(rep, "other-leaf", call(p, &root, &leaves[j], i as u32), false);
                    }
                    check(rep, "random-leaf", call(p, &root, &rng.bytes(), i as u32), false);
                    let mut lf = leaves[i];
                    lf[rng.idx(32)] ^= 1 << rng.idx(8);
                    check(rep, "leaf-bit", call(p, &root, &lf, i as u32), false);
                    check(rep, "random-root", call(p, &rng.bytes(), &leaves[i], i as u32), false);
                    let mut rt = root;
                    rt[rng.idx(32)] ^= 1 << rng.idx(8);
                    check(rep, "root-bit", call(p, &rt, &leaves[i], i as u32), false);
                    if positional {
                        let lim = 1u32 << p.len();
                        let others: Vec<u32> = if lim <= 64 { (0..lim).collect() } else { let mut v: Vec<u32> = (0..16).map(|_| rng.below(lim as u64) as u32).collect(); v.extend([0, lim - 1, (i as u32) ^ 1]); v };
                        for x in others {
                            if x != i as u32 {
                                check(rep, "wrong-index", call(p, &root, &leaves[i], x), false);
                            }
                        }
                        check(rep, "index-out-of-range", call(p, &root, &leaves[i], lim), false);
                        check(rep, "index-max", call(p, &root, &leaves[i], u32::MAX), false);
                    }
                }
                // sorted-pair trees in which a sibling EQUALS the running node: two equal adjacent leaves,
                // and odd nodes paired with themselves. Membership is still membership; only corruptions
                // that stay meaningful with repeated values are applied.
                if !positional && n >= 2 {
                    for shape in ["equal-adjacent-leaves", "odd-node-paired-with-itself"] {
                        let mut lv = leaves.clone();
                        let (root2, proofs2) = if shape == "equal-adjacent-leaves" {
                            let j = 2 * rng.idx(n / 2);
                            lv[j + 1] = lv[j];
                            build_sorted(keccak, &lv)
                        } else {
                            build_sorted_dup(keccak, &lv)
                        };
                        let idxs: Vec<usize> = if n <= 24 { (0..n).collect() } else { vec![0, 1, n / 2, n - 2, n - 1] };
                        for i in idxs {
                            let p = &proofs2[i];
                            let got = call(p, &root2, &lv[i], 0);
                            rep.evaluations += 4;
                            rep.case(format!("{hn}/sorted/{shape}/n-class={}/honest/{}", match n { 2 => "2", 3..=8 => "3-8", _ => ">8" }, match &got { Ok(b) => b.to_string(), Err(f) => f.tag() }));
                            rep.check("honest", got == Ok(true), &format!("C17/honest/{f}/honest-proof-rejected/{shape}"), || format!("{hn} sorted tree of {n} leaves ({shape}): honest proof of leaf {i} (len {}) -> {got:?}", p.len()));
                            let mut lf = lv[i];
                            lf[rng.idx(32)] ^= 1 << rng.idx(8);
                            let got = call(p, &root2, &lf, 0);
                            rep.check("corrupt", got != Ok(true), &format!("C17/corrupt/{f}/accepted/leaf-bit"), || format!("{hn} sorted tree of {n} leaves ({shape}), leaf {i}: altered leaf accepted"));
                            let got = call(p, &rng.bytes(), &lv[i], 0);
                            rep.check("corrupt", got != Ok(true), &format!("C17/corrupt/{f}/accepted/random-root"), || format!("{hn} sorted tree of {n} leaves ({shape}), leaf {i}: random root accepted"));
                            let mut q = p.clone();
                            q.push(rng.bytes());
                            let got = call(&q, &root2, &lv[i], 0);
                            rep.check("corrupt", got != Ok(true), &format!("C17/corrupt/{f}/accepted/proof-append"), || format!("{hn} sorted tree of {n} leaves ({shape}), leaf {i}: extended proof accepted"));
                        }
                    }
                }
                rep.end_history();
            }
        }
    }
}

/// Positional proofs of depth 30 / 31 (single path, random siblings): honest accepted up to the last
/// index, any other index, an out-of-range index and a proof of 32 elements not accepted.
fn deep_paths(cfg: &Cfg, rep: &mut Report) {
    let h = 5_000u64;
    if !cfg.runs(h) {
        return;
    }
    let mut rng = Rng::for_history(cfg.seed, "C17", cfg.shard, h);
    rep.begin_history(h);
    let w = World::new(10, 16);
    let e = &w.env;
    let c = e.register(MerkleC, ());
    for keccak in [false, true] {
        let f = if keccak { "verify_idx_keccak" } else { "verify_idx_sha" };
        for len in [30usize, 31, 32] {
            let sib: Vec<H32> = (0..len).map(|_| rng.bytes()).collect();
            let leaf: H32 = rng.bytes();
            let top: u64 = 1u64 << len;
            for index in [0u64, 1, top - 1, top / 2, rng.below(top)] {
                let index = index.min(u32::MAX as u64) as u32;
                let mut node = leaf;
                let mut ix = index as u64;
                for s in &sib {
                    node = if ix % 2 == 0 { hash(keccak, &node, s) } else { hash(keccak, s, &node) };
                    ix /= 2;
                }
                let call = |idx: u32| -> Result<bool, Fail> { invoke(e, &c, f, args!(e, to_vec(e, &sib), BytesN::from_array(e, &node), BytesN::from_array(e, &leaf), idx)) };
                let got = call(index);
                rep.evaluations += 4;
                rep.case(format!("deep/{f}/len={len}/{}", match &got { Ok(b) => b.to_string(), Err(x) => x.tag() }));
                if len < 32 {
                    rep.check("honest", got == Ok(true), &format!("C17/honest/{f}/honest-proof-rejected/depth-{len}"), || format!("honest positional proof of depth {len} for index {index} -> {got:?}"));
                    for other in [index ^ 1, index ^ (1 << (len - 1)), index ^ (1 << (len / 2))] {
                        let g = call(other);
                        rep.check("corrupt", g != Ok(true), &format!("C17/corrupt/{f}/accepted/wrong-index"), || format!("depth {len}: proof of index {index} accepted for index {other}"));
                    }
                    if len < 31 {
                        let g = call(index | (1 << len));
                        rep.check("corrupt", g != Ok(true), &format!("C17/corrupt/{f}/accepted/index-out-of-range"), || format!("depth {len}: index {} (beyond 2^{len}) accepted", index | (1 << len)));
                    }
                } else {
                    rep.check("corrupt", got != Ok(true), &format!("C17/corrupt/{f}/accepted/proof-of-32-elements"), || format!("a positional proof of 32 elements was accepted for index {index}"));
                }
            }
        }
    }
    // sorted-pair form: a comb (every level pairs the running node with one fresh leaf) has honest
    // proofs of any length - the depth limit of the positional form does not apply here
    for keccak in [false, true] {
        let f = if keccak { "verify_keccak" } else { "verify_sha" };
        for len in [31usize, 32, 33, 40] {
            let sib: Vec<H32> = (0..len).map(|_| rng.bytes()).collect();
            let leaf: H32 = rng.bytes();
            let mut node = leaf;
            for s in &sib {
                node = if node <= *s { hash(keccak, &node, s) } else { hash(keccak, s, &node) };
            }
            let call = |proof: &[H32], root: &H32, lf: &H32| -> Result<bool, Fail> { invoke(e, &c, f, args!(e, to_vec(e, proof), BytesN::from_array(e, root), BytesN::from_array(e, lf))) };
            let got = call(&sib, &node, &leaf);
            rep.evaluations += 3;
            rep.case(format!("deep/{f}/len={len}/{}", match &got { Ok(b) => b.to_string(), Err(x) => x.tag() }));
            rep.check("honest", got == Ok(true), &format!("C17/honest/{f}/honest-proof-rejected/comb-of-depth-{len}"), || format!("honest sorted-pair proof of {len} elements -> {got:?}"));
            let g = call(&sib[..len - 1], &node, &leaf);
            rep.check("corrupt", g != Ok(true), &format!("C17/corrupt/{f}/accepted/proof-drop-last"), || format!("comb of depth {len}: truncated proof accepted"));
            let mut lf = leaf;
            lf[3] ^= 4;
            let g = call(&sib, &node, &lf);
            rep.check("corrupt", g != Ok(true), &format!("C17/corrupt/{f}/accepted/leaf-bit"), || format!("comb of depth {len}: altered leaf accepted"));
        }
    }
    rep.end_history();
}

fn leaf_hash(e: &Env, keccak: bool, index: u32, addr: &Address, amount: i128) -> H32 {
    let x = Receiver { index, address: addr.clone(), amount }.to_xdr(e);
    let mut b: Vec<u8> = vec![];
    for y in x.iter() {
        b.push(y);
    }
    hash(keccak, &b, &[])
}

/// variant 0..=2: DistC wrapper; 3: the airdrop example (Sha256 sorted-pair, pays out tokens)
fn distributor(cfg: &Cfg, rep: &mut Report, h: u64, variant: u32) {
    let mut rng = Rng::for_history(cfg.seed, "C17", cfg.shard, h);
    rep.begin_history(h);
    let w = World::new(10, 16);
    let e = &w.env;
    e.mock_all_auths();
    let keccak = variant <= 1;
    let positional = variant == 1 || variant == 2;
    let users = w.accounts(6);
    let mk_tree = |rng: &mut Rng, n: usize, base: u32| -> (H32, Vec<Vec<H32>>, Vec<(u32, usize, i128)>) {
        let recs: Vec<(u32, usize, i128)> = (0..n).map(|i| (base + i as u32, rng.idx(6), if rng.chance(1, 6) { 0 } else { 1 + rng.below(50) as i128 })).collect();
        let leaves: Vec<H32> = recs.iter().map(|(i, u, a)| leaf_hash(e, keccak, *i, &users[*u], *a)).collect();
        let (root, proofs) = if positional { build_positional(keccak, &leaves) } else { build_sorted(keccak, &leaves) };
        (root, proofs, recs)
    };
    // (one leaf: the root is the leaf and the honest proof is empty)
    let n = if rng.chance(1, 8) { 1 } else { 2 + rng.idx(14) };
    // indices start at 0, somewhere in the middle, or end at u32::MAX
    // (0, 128 and 256 make indices that agree modulo 128 / 256 meet in one history: packed flags)
    let bases: [u32; 7] = [0, 0, 128, 256, 384, 1000, u32::MAX - 19];
    // (in the positional form the index is the leaf's position, so those trees start at 0)
    let b0 = if positional { 0 } else { *rng.pick(&bases) };
    let (mut root, mut proofs, mut recs) = mk_tree(&mut rng, n, b0);
    // every index any tree of this history has used, plus a few never used: the flags watched
    let mut watch: Vec<u32> = (0..4).chain(recs.iter().map(|r| r.0)).collect();
    let token = e.register(TokBase, ());
    let funder = w.account();
    invoke::<()>(e, &token, "mint", args!(e, funder, 1_000_000i128)).unwrap();
    // a third of the airdrop histories are under-funded: a valid proof whose payout fails marks nothing
    // (and some are deployed with no funding at all: the root is in force all the same, allocations of 0
    // can be claimed, the others cannot be paid)
    let mut pot: i128 = if variant == 3 && rng.chance(1, 3) { if rng.chance(1, 3) { 0 } else { 30 + rng.below(60) as i128 } } else { 100_000 };
    if variant == 3 && pot == 0 {
        rep.count("airdrops_deployed_without_funding");
    }
    // the tree in force before the last root change
    let mut old_tree: Option<(Vec<Vec<H32>>, Vec<(u32, usize, i128)>)> = None;
    let c: Address = if variant == 3 {
        // the constructor pulls the funding from `funder` (a nested, non-root authorization)
        e.mock_all_auths_allowing_non_root_auth();
        e.register(AirdropContract, (BytesN::from_array(e, &root), token.clone(), pot, funder.clone()))
    } else {
        let c = e.register(DistC, (variant,));
        // before any root is set nothing can be claimed - not even what the first tree will hold
        {
            let (i0, u0, a0) = recs[0];
            e.mock_all_auths();
            let early: Result<(), Fail> = invoke(e, &c, "claim", args!(e, i0, users[u0], a0, to_vec(e, &proofs[0])));
            let flag: bool = invoke(e, &c, "is_claimed", args!(e, i0)).must("is_claimed");
            rep.evaluations += 2;
            rep.case(format!("dist-{variant}/claim-before-any-root/{}", tag(&early)));
            rep.check("claim", early.is_err() && !flag, &format!("C17/claim/dist-{variant}/claimed-before-any-root-was-set"), || format!("claim(index {i0}) before set_root: {early:?}, is_claimed {flag}"));
        }
        invoke::<()>(e, &c, "set_root", args!(e, BytesN::from_array(e, &root))).unwrap();
        c
    };
    let vname = ["keccak-sorted", "keccak-indexed", "sha256-indexed", "airdrop-example"][variant as usize];
    rep.op(format!("deploy distributor {vname} with a tree of {n} leaves"));
    let mut claimed: BTreeSet<u32> = BTreeSet::new();
    let mut paid = vec![0i128; 6];
    for step in 0..60 {
        // claimed flags must outlive any number of ledgers
        if rng.chance(1, 6) {
            let t = w.ledger() + *rng.pick(&[1u32, 17, 20, 5_000, 2_000_000]);
            w.set_ledger(t);
            rep.op(format!("ledger -> {t}"));
            rep.count("ledger_moves");
            for x in watch.clone() {
                let g: bool = invoke(e, &c, "is_claimed", args!(e, x)).must("is_claimed");
                rep.check("ref", g == claimed.contains(&x), &format!("C17/ref/{vname}/claimed-flag-after-ledger-move"), || format!("after moving to ledger {t}: is_claimed({x}) = {g}, model {}", claimed.contains(&x)));
            }
        }
        let k = rng.below(100);
        if k < 6 && variant != 3 {
            // root change: a new tree whose indices partly overlap the old ones
            let n2 = if rng.chance(1, 8) { 1 } else { 2 + rng.idx(14) };
            let b2 = if positional { 0 } else { *rng.pick(&bases) };
            let t = mk_tree(&mut rng, n2, b2);
            watch.extend(t.2.iter().map(|r| r.0));
            watch.sort();
            watch.dedup();
            old_tree = Some((proofs.clone(), recs.clone()));
            root = t.0;
            proofs = t.1;
            recs = t.2;
            invoke::<()>(e, &c, "set_root", args!(e, BytesN::from_array(e, &root))).unwrap();
            rep.op(format!("#{step} set_root(new tree of {n2} leaves)"));
            continue;
        }
        // a claim that was valid against the previous root must not be honoured any more
        if let (Some((oproofs, orecs)), true) = (&old_tree, k >= 94) {
            let oi = rng.idx(orecs.len());
            let (oidx, ousr, oamt) = orecs[oi];
            let still_valid = recs.iter().enumerate().any(|(j, r)| *r == orecs[oi] && proofs[j] == oproofs[oi]);
            if !still_valid {
                let before: Vec<bool> = watch.iter().map(|x| invoke::<bool>(e, &c, "is_claimed", args!(e, *x)).must("is_claimed")).collect();
                e.mock_all_auths();
                let got: Result<(), Fail> = invoke(e, &c, "claim", args!(e, oidx, users[ousr], oamt, to_vec(e, &oproofs[oi])));
                rep.evaluations += 1;
                rep.op(format!("#{step} claim(index {oidx}, user {ousr}, amount {oamt}) with the proof from the PREVIOUS tree -> {}", tag(&got)));
                rep.case(format!("{vname}/proof-from-previous-root/claimed-before={}/{}", claimed.contains(&oidx), tag(&got)));
                rep.check("claim", got.is_err(), &format!("C17/claim/{vname}/claimed-with-invalid-proof/proof-from-previous-root"), || format!("a claim for index {oidx} proved against the previous root was honoured after set_root"));
                let after: Vec<bool> = watch.iter().map(|x| invoke::<bool>(e, &c, "is_claimed", args!(e, *x)).must("is_claimed")).collect();
                if got.is_err() {
                    rep.check("res", before == after, &format!("C17/res/{vname}/failed-claim-marked-something"), || format!("failed claim changed the claimed flags: {before:?} -> {after:?}"));
                } else {
                    claimed.insert(oidx);
                }
                continue;
            }
        }
        let i = rng.idx(recs.len());
        let (idx, usr, amt) = recs[i];
        let kind = match k {
            0..=49 => "valid",
            50..=59 => "proof-of-other-index",
            60..=64 => "wrong-amount",
            65..=67 => "zero-amount",
            68..=69 => "negative-amount",
            70..=79 => "wrong-receiver",
            80..=89 => "wrong-index-same-proof",
            _ => "empty-proof",
        };
        let j = (i + 1) % recs.len();
        let (pidx, pusr, pamt, proof): (u32, usize, i128, Vec<H32>) = match kind {
            "valid" => (idx, usr, amt, proofs[i].clone()),
            "proof-of-other-index" => (idx, usr, amt, proofs[j].clone()),
            "wrong-amount" => (idx, usr, amt + 1, proofs[i].clone()),
            "zero-amount" => (idx, usr, 0, proofs[i].clone()),
            "negative-amount" => (idx, usr, -amt - 1, proofs[i].clone()),
            "wrong-receiver" => (idx, (usr + 1) % 6, amt, proofs[i].clone()),
            "wrong-index-same-proof" => (recs[j].0, usr, amt, proofs[i].clone()),
            _ => (idx, usr, amt, vec![]),
        };
        let genuine = kind == "valid" || (kind == "wrong-index-same-proof" && recs.len() == 1) || (kind == "zero-amount" && amt == 0) || (kind == "proof-of-other-index" && proofs[j] == proofs[i] && recs.len() == 1) || (kind == "empty-proof" && recs.len() == 1);
        let before: Vec<bool> = watch.iter().map(|x| invoke::<bool>(e, &c, "is_claimed", args!(e, *x)).must("is_claimed")).collect();
        e.mock_all_auths();
        let got: Result<(), Fail> = invoke(e, &c, "claim", args!(e, pidx, users[pusr], pamt, to_vec(e, &proof)));
        rep.evaluations += 1;
        let payable = variant != 3 || pamt <= pot;
        let want = genuine && !claimed.contains(&pidx) && payable;
        if genuine && !claimed.contains(&pidx) && !payable {
            rep.count("valid_proof_with_failing_payout");
        }
        rep.op(format!("#{step} claim(index {pidx}, user {pusr}, amount {pamt}) kind={kind} already_claimed={} -> {}", claimed.contains(&pidx), tag(&got)));
        rep.case(format!("{vname}/{kind}/claimed-before={}/{}", claimed.contains(&pidx), tag(&got)));
        rep.count(&format!("claim:{}", tag(&got)));
        if got.is_ok() {
            rep.check("claim", !claimed.contains(&pidx), &format!("C17/claim/{vname}/index-claimed-twice"), || format!("index {pidx} claimed again at step {step}"));
            rep.check("claim", genuine, &format!("C17/claim/{vname}/claimed-with-invalid-proof/{kind}"), || format!("claim of kind {kind} for index {pidx} succeeded"));
        }
        rep.check("ref", got.is_ok() == want, &format!("C17/ref/{vname}/claim/outcome"), || format!("claim kind {kind} index {pidx} (claimed before: {}): expected ok={want}, got {got:?}", claimed.contains(&pidx)));
        if got.is_ok() {
            claimed.insert(pidx);
            paid[pusr] += pamt;
            if variant == 3 {
                pot -= pamt;
            }
        }
        let after: Vec<bool> = watch.iter().map(|x| invoke::<bool>(e, &c, "is_claimed", args!(e, *x)).must("is_claimed")).collect();
        for (wi, x) in watch.iter().enumerate() {
            rep.check("ref", after[wi] == claimed.contains(x), &format!("C17/ref/{vname}/is_claimed"), || format!("is_claimed({x}) = {}, model {}", after[wi], claimed.contains(x)));
        }
        if got.is_err() {
            rep.check("res", before == after, &format!("C17/res/{vname}/failed-claim-marked-something"), || format!("failed claim changed the claimed flags: {before:?} -> {after:?}"));
        }
        if variant == 3 {
            for uix in 0..6 {
                let b: i128 = invoke(e, &token, "balance", args!(e, users[uix])).must("balance");
                rep.check("ref", b == paid[uix], "C17/ref/airdrop-example/payout", || format!("user {uix} holds {b}, sum of its successful claims {}", paid[uix]));
            }
        }
    }
    rep.end_history();
}

pub fn run(cfg: &Cfg, rep: &mut Report) {
    rep.rule = "(a) for both hashers and both forms (sorted-pair, positional with index), every tree size 1..=65 (thorough 400) with fresh random leaves (split over shards): every leaf (beyond 40 leaves: first, last and a sample) with its honest proof from an independent tree builder, and every single corruption: one bit in each proof element, adjacent swap, first/last dropped, last duplicated, element appended, an entry that is no 32-byte string (number, void, 31 / 33 bytes, symbol) inserted, a node of a special value (all zero, all ones, the leaf, the root) inserted at the front / inside / at the end, other leaf, random leaf, leaf bit, random root, root bit, every other index < 2^len (sampled beyond 64), index = 2^len and u32::MAX; single-path positional proofs of depth 30, 31 and 32, sorted-pair combs of depth 31-40; (b) distributor histories on a wrapper (Keccak sorted, Keccak indexed, Sha256 indexed) and the airdrop example: valid claims (a sixth of the leaves allocate 0), repeats, proofs of other indices, wrong / zero / negative amount, wrong receiver / index, empty proof, root changes (claims proved against the previous root are retried), ledger jumps, under-funded and unfunded airdrops (a valid proof whose payout fails; allocations of 0 still claimable). Sorted-pair trees are also built with two equal adjacent leaves and with odd nodes paired with themselves (a sibling equal to the running node). Distinct case = (hasher, form, tree-size class, leaf position, corruption kind, outcome).".into();
    verifier_sweep(cfg, rep);
    deep_paths(cfg, rep);
    let nh = cfg.pick(30u64, 1500);
    for v in 0..4u32 {
        for k in 0..nh {
            let h = 10_000 + v as u64 * 100_000 + k;
            if cfg.runs(h) {
                distributor(cfg, rep, h, v);
            }
        }
    }
    rep.floor_on("claims_ok", 50, &["claim:ok"]);
}
