//! C02 — tokens move only with the holder's authorization or a live allowance.
//! AUTH monitor with exact authorization sets, allowance reference model at expiry boundaries,
//! generic balance-decrease and allowance-change monitors that do not depend on the model.
use crate::fung::*;
use crate::props::c01::gen_op;
use crate::report::Report;
use crate::rng::Rng;
use crate::world::{tag, Fail, World};
use crate::Cfg;

fn subset_label(op: &Op, s: &[usize], stranger: usize, owner: usize) -> String {
    // label by role, so that the class does not depend on which concrete address played it
    let mut l = String::new();
    let has = |i: usize| s.contains(&i);
    match op {
        Op::Mint { to, .. } => {
            l.push_str(&format!("owner={} to={}", has(owner) as u8, has(*to) as u8));
        }
        Op::Transfer { from, to, .. } => l.push_str(&format!("from={} to={}", has(*from) as u8, has(*to) as u8)),
        Op::TransferFrom { sp, from, to, .. } => {
            l.push_str(&format!("sp={} from={} to={}", has(*sp) as u8, has(*from) as u8, has(*to) as u8))
        }
        Op::Approve { owner, sp, .. } => l.push_str(&format!("owner={} sp={}", has(*owner) as u8, has(*sp) as u8)),
        Op::Burn { from, .. } => l.push_str(&format!("from={}", has(*from) as u8)),
        Op::BurnFrom { sp, from, .. } => l.push_str(&format!("sp={} from={}", has(*sp) as u8, has(*from) as u8)),
    }
    l.push_str(&format!(" stranger={}", has(stranger) as u8));
    l
}

fn allow_state(m: &FModel, op: &Op, cur: u32, min_temp: u32) -> &'static str {
    let (o, s, a) = match op {
        Op::TransferFrom { sp, from, a, .. } | Op::BurnFrom { sp, from, a } => (*from, *sp, *a),
        _ => return "-",
    };
    match m.allow.get(&(o, s)) {
        None => "none",
        Some((_, l)) if *l < cur => {
            if min_temp > 1 {
                "expired(maybe-in-storage)"
            } else {
                "expired"
            }
        }
        Some((al, l)) => {
            let edge = if *l == cur { "@L" } else { "" };
            if *al < a {
                if edge.is_empty() {
                    "live<"
                } else {
                    "live<@L"
                }
            } else if *al == a {
                if edge.is_empty() {
                    "live="
                } else {
                    "live=@L"
                }
            } else if edge.is_empty() {
                "live>"
            } else {
                "live>@L"
            }
        }
    }
}

fn history(cfg: &Cfg, rep: &mut Report, fl: Flavour, h: u64, steps: usize) {
    let mut rng = Rng::for_history(cfg.seed, "C02", cfg.shard, h);
    rep.begin_history(h);
    let min_temp = if h % 2 == 0 { 1 } else { 16 };
    let w = World::new(100 + rng.below(50) as u32, min_temp);
    let n = 5; // u[0] owner, u[1] manager, others plain; the last one doubles as frequent stranger
    let initial: i128 = *rng.pick(&[1000, 1 << 40, i128::MAX / 2]);
    let (tok, _) = Token::deploy(&w, fl, n, initial);
    let mut m = FModel::new(n);
    rep.op(format!("deploy {} n={n} initial={initial} min_temp_ttl={min_temp} ledger={}", fl.name(), w.ledger()));
    if Token::ctor_mints(fl) {
        m.bal[OWNER] = initial;
        m.supply = initial;
    }
    if fl.is_allow() {
        for i in 0..n {
            tok.set_listed(i, true).expect("allow_user");
            m.listed[i] = true;
        }
    }
    let mut pre = tok.observe();
    for step in 0..steps {
        // ledger moves to the lattice of every allowance's expiry
        if step > n && rng.chance(1, 5) {
            let cur = w.ledger();
            let mut targets: Vec<u32> = vec![cur + 1];
            for (_, (a, l)) in m.allow.iter() {
                if *l >= cur && *a > 0 {
                    targets.extend([*l, l.saturating_add(1), l.saturating_sub(1)]);
                    if min_temp > 1 {
                        targets.push(l.saturating_add(min_temp)); // past the storage TTL as well
                    }
                }
            }
            let t = if rng.chance(1, 25) { cur + 600_000 } else { *rng.pick(&targets) };
            if t > cur && (t < cur + 5000 || t == cur + 600_000) {
                w.set_ledger(t);
                rep.op(format!("ledger -> {t}"));
                let now = tok.observe();
                let want = m.state(t);
                // allowance monitor at a ledger move: may only drop to zero, and only once expired
                for o in 0..n {
                    for s in 0..n {
                        let (b, a) = (pre.allow[o * n + s], now.allow[o * n + s]);
                        if a != b {
                            let l = m.allow.get(&(o, s)).map(|x| x.1);
                            let ok = a == 0 && l.map_or(false, |l| t > l);
                            rep.check("allowance", ok, &format!("C02/allowance/{}/ledger-move/changed", fl.name()), || {
                                format!("allowance({o},{s}) went {b} -> {a} by moving to ledger {t}; approved live_until={l:?}")
                            });
                        }
                    }
                }
                rep.check("ref", now == want, &format!("C02/ref/{}/ledger-move/state", fl.name()), || {
                    format!("after moving to ledger {t}: observed {now:?}, model {want:?} (allowances {:?})", m.allow)
                });
                rep.count("ledger_moves");
                pre = now;
            }
        }
        let cur = w.ledger();
        let max_live = w.env.ledger().max_live_until_ledger();
        let op = if step < n {
            let a = *rng.pick(&[1000i128, 1 << 40]);
            if fl.has_mint() {
                Op::Mint { to: step, a }
            } else {
                Op::Transfer { from: OWNER, to: step, a: a.min(m.bal[OWNER] / 2) }
            }
        } else {
            let mut op = gen_op(&mut rng, &m, fl, cur, max_live);
            // bias *_from towards pairs that do have an allowance on record
            if rng.chance(1, 2) && !m.allow.is_empty() {
                let keys: Vec<_> = m.allow.keys().cloned().collect();
                let (o, s) = *rng.pick(&keys);
                let al = m.allow[&(o, s)].0;
                let a = *rng.pick(&[al, al / 2, al.saturating_add(1), 1, al.saturating_sub(1)]);
                let a = a.min(m.bal[o].saturating_add(1)).max(0);
                op = match op {
                    Op::TransferFrom { to, .. } => Op::TransferFrom { sp: s, from: o, to, a },
                    Op::BurnFrom { .. } => Op::BurnFrom { sp: s, from: o, a },
                    x => x,
                };
            }
            op
        };
        if matches!(op, Op::Mint { .. }) && !fl.mint_needs_owner() && step >= n && rng.chance(2, 3) {
            continue; // un-gated wrapper mint: nothing to learn about authorization
        }
        // authorizing subset: the principal alone (history makes progress), or any subset of
        // parties + a stranger (+ the owner for gated mints)
        let parties = op.parties();
        let stranger = (0..n).rev().find(|i| !parties.contains(i)).unwrap_or(n - 1);
        let mut cand = parties.clone();
        cand.push(stranger);
        if fl.mint_needs_owner() && matches!(op, Op::Mint { .. }) && !cand.contains(&OWNER) {
            cand.push(OWNER);
        }
        let principal = op.principal(OWNER, fl);
        let signers: Vec<usize> = if step < n || rng.chance(2, 5) {
            principal.into_iter().collect()
        } else {
            let mask = rng.below(1 << cand.len());
            cand.iter().enumerate().filter(|(i, _)| mask >> i & 1 == 1).map(|(_, c)| *c).collect()
        };
        let want_model = m.predict(&op, cur, max_live, fl);
        let authorized = principal.map_or(true, |p| signers.contains(&p));
        let got = tok.exec(&op, Some(&signers));
        rep.evaluations += 1;
        let label = subset_label(&op, &signers, stranger, OWNER);
        rep.op(format!("#{step} @{cur} {op:?} signed by {signers:?} -> {}", tag(&got)));
        if let Err(Fail::Budget) = got {
            rep.count("budget_errors");
        }
        rep.count(&format!("{}:{}", op.name(), tag(&got)));
        rep.case(format!("{}/{}/[{}]/{}/{}", fl.name(), op.name(), label, allow_state(&m, &op, cur, min_temp), tag(&got)));
        let site = format!("{}/{}", fl.name(), op.name());
        // AUTH: success without the necessary principal is the violation
        if got.is_ok() {
            rep.check("auth", authorized, &format!("C02/auth/{site}/succeeded-without-principal"), || {
                format!("{op:?} succeeded at ledger {cur} although principal {principal:?} did not authorize; signers {signers:?}")
            });
        }
        // converse (model exact): preconditions + principal => success; model refusal => failure
        let want_ok = want_model.is_ok() && authorized;
        rep.check("ref", got.is_ok() == want_ok, &format!("C02/ref/{site}/outcome"), || {
            format!("{op:?} at ledger {cur} signed by {signers:?}: model {want_model:?}, authorized={authorized}, contract answered {got:?}; allowances {:?}", m.allow)
        });
        if got.is_ok() && authorized && want_model.is_err() {
            if let Op::TransferFrom { .. } | Op::BurnFrom { .. } = op {
                rep.count("spend_without_live_allowance");
            }
        }
        let post = tok.observe();
        rep.evaluations += (n * n + n + 1) as u64;
        match &got {
            Err(_) => {
                rep.check("res", post == pre, &format!("C02/res/{site}/state-changed-by-failed-call"), || {
                    format!("{op:?} failed with {got:?} but state moved from {pre:?} to {post:?}")
                });
                if let (Op::TransferFrom { .. } | Op::BurnFrom { .. }, Err(_)) = (&op, &want_model) {
                    if authorized {
                        rep.count(&format!("refused_spend:{}", allow_state(&m, &op, cur, min_temp)));
                    }
                }
            }
            Ok(()) => {
                if let (Op::TransferFrom { .. } | Op::BurnFrom { .. }, true) = (&op, op.amount() > 0) {
                    rep.count(&format!("spend:{}", allow_state(&m, &op, cur, min_temp)));
                }
                // model-independent balance-decrease monitor
                for hld in 0..n {
                    let dec = pre.bal[hld] - post.bal[hld];
                    if dec > 0 {
                        let by_holder = signers.contains(&hld) && matches!(&op, Op::Transfer { from, .. } | Op::Burn { from, .. } if *from == hld);
                        let by_allowance = match &op {
                            Op::TransferFrom { sp, from, .. } | Op::BurnFrom { sp, from, .. } => {
                                *from == hld && signers.contains(sp) && pre.allow[hld * n + *sp] >= dec
                            }
                            _ => false,
                        };
                        rep.check("decrease", by_holder || by_allowance, &format!("C02/decrease/{site}/unauthorized-balance-decrease"), || {
                            format!("{op:?} signed by {signers:?} lowered balance of {hld} by {dec}; holder signed: {}, allowance before: {:?}", signers.contains(&hld), pre.allow)
                        });
                    }
                }
                // model-independent allowance-change monitor
                for o in 0..n {
                    for s in 0..n {
                        let (b, a) = (pre.allow[o * n + s], post.allow[o * n + s]);
                        if a == b {
                            continue;
                        }
                        let ok = match &op {
                            Op::Approve { owner, sp, a: amt, .. } => *owner == o && *sp == s && signers.contains(&o) && a == *amt || (*owner == o && *sp == s && a == 0),
                            Op::TransferFrom { sp, from, a: amt, .. } | Op::BurnFrom { sp, from, a: amt } => {
                                *from == o && *sp == s && signers.contains(&s) && b - a == *amt
                            }
                            _ => false,
                        };
                        rep.check("allowance", ok, &format!("C02/allowance/{site}/unexpected-allowance-change"), || {
                            format!("{op:?} signed by {signers:?}: allowance({o},{s}) went {b} -> {a}")
                        });
                    }
                }
                if want_ok {
                    m.apply(&op);
                    let ms = m.state(cur);
                    rep.check("ref", post == ms, &format!("C02/ref/{site}/state"), || format!("{op:?}: observed {post:?}, model {ms:?}"));
                }
            }
        }
        pre = post;
    }
    // the token contract's own address as a holder (tokens sent to it by mistake): it cannot sign, so
    // nothing may ever leave it - whoever signs
    if fl.has_mint() {
        let e = tok.env();
        let me = tok.addr.clone();
        e.mock_all_auths();
        let funded: Result<(), Fail> = crate::world::invoke(e, &tok.addr, "mint", crate::args!(e, me.clone(), 500i128));
        if funded.is_ok() {
            for probe in 0..4 {
                let to = rng.idx(n);
                let mask = rng.below(1 << n);
                let signers: Vec<usize> = (0..n).filter(|i| mask >> i & 1 == 1).collect();
                let (f, a): (&str, soroban_sdk::Vec<soroban_sdk::Val>) = if probe % 2 == 0 {
                    ("transfer", crate::args!(e, me.clone(), tok.u[to].clone(), 100i128))
                } else {
                    ("transfer_from", crate::args!(e, tok.u[to].clone(), me.clone(), tok.u[to].clone(), 100i128))
                };
                let inv = crate::world::Inv::new(&tok.addr, f, a.clone());
                let entries: Vec<(soroban_sdk::Address, crate::world::Inv)> = signers.iter().map(|i| (tok.u[*i].clone(), inv.clone())).collect();
                w.auth(&entries);
                let got: Result<(), Fail> = crate::world::invoke(e, &tok.addr, f, a);
                let bal: i128 = crate::world::invoke(e, &tok.addr, "balance", crate::args!(e, me.clone())).unwrap_or(-1);
                rep.evaluations += 1;
                rep.op(format!("{f} out of the token contract's own balance to {to} signed by {signers:?} -> {}", tag(&got)));
                rep.case(format!("{}/{f}/from-the-token-itself/{}", fl.name(), tag(&got)));
                rep.check("decrease", got.is_err() && bal == 500, &format!("C02/decrease/{}/{f}/left-the-token-contracts-own-balance", fl.name()), || format!("{f} from the token's own address signed by {signers:?}: {got:?}, its balance is now {bal} (was 500)"));
            }
        }
    }
    rep.end_history();
}

pub fn run(cfg: &Cfg, rep: &mut Report) {
    rep.rule = "Seeded histories per token flavour (the eight fungible flavours, the RWA token's holder-initiated entry points behind permissive compliance / identity mocks, vault shares through the C05 engine) with EXACT authorization: each call is signed by the principal alone (2/5) or by a uniformly random subset of {parties of the call, a stranger, the mint owner}; live_until on {cur-1,cur,cur+1,..,max,max+1,0}; ledger moved to {L-1,L,L+1,L+ttl} of live allowances; min_temp_entry_ttl alternates 1/16. Distinct case = (flavour, entry point, who signed by role, allowance state {none,live<,live=,live>,@L,expired}, outcome); calls refused by a pure argument check still carry their signer set, so they are counted.".into();
    let nh = cfg.pick(6u64, 60);
    let steps = cfg.pick(220usize, 400);
    for (fi, fl) in ALL_FLAVOURS.iter().enumerate() {
        for k in 0..nh {
            let h = fi as u64 * 1000 + k;
            if cfg.runs(h) {
                history(cfg, rep, *fl, h, steps);
            }
        }
    }
    // RWA token: its holder-initiated entry points (transfer, transfer_from, approve) under exact
    // authorization; compliance and identity mocks let everything through, nothing is frozen
    for k in 0..nh {
        let h = 8_000 + k;
        if cfg.runs(h) {
            history(cfg, rep, Flavour::Rwa, h, steps);
        }
    }
    // vault operator path: the C05 engine under exact authorization
    for k in 0..nh * 2 {
        let h = 70_000 + k;
        if cfg.runs(h) {
            crate::props::c05::history(cfg, rep, h, steps, crate::props::c05::Mode::Auth, (k % 11) as u32);
        }
    }
    rep.floor_on("vault_operator_spends", 5, &["operator_spends"]);
    let c = |k: &str| *rep.counters.get(k).unwrap_or(&0);
    let (a, b, d) = (c("spend:live=@L") + c("spend:live>@L"), c("refused_spend:expired") + c("refused_spend:expired(maybe-in-storage)"), c("ledger_moves"));
    rep.floor("spend_at_live_until", 1, a);
    rep.floor("refused_spend_after_expiry", 1, b);
    rep.floor("ledger_moves", 10, d);
}
