//! C16 — pause, allow/block lists, supply cap and migration flags cannot be bypassed.
//! REF models: pause flag with strict alternation; list status of every vetted party; cap; the
//! migration flag (once per upgrade, never without one). RES after every refusal.
use crate::args;
use crate::contracts::misc::{MigData, Migr};
use crate::examples;
use crate::fung::*;
use crate::obs;
use crate::props::c01::gen_op;
use crate::report::Report;
use crate::rng::Rng;
use crate::world::{Must, invoke, tag, Fail, Inv, World};
use crate::Cfg;
use soroban_sdk::{Address, Bytes, BytesN, Val};

// ------------------------------------------------------------------ pause: plain pausable example
fn pausable_example(cfg: &Cfg, rep: &mut Report, h: u64) {
    let mut rng = Rng::for_history(cfg.seed, "C16", cfg.shard, h);
    rep.begin_history(h);
    let w = World::new(100, 16);
    let e = &w.env;
    let u = w.accounts(3);
    let c = e.register(examples::pausable::ExampleContract, (u[0].clone(),));
    let mut paused = false;
    let mut counter: i32 = 0;
    let mut transitions: Vec<bool> = vec![];
    for step in 0..120 {
        let k = rng.below(10);
        let caller = if rng.chance(2, 3) { 0 } else { rng.idx(3) };
        let signed = rng.chance(5, 6);
        let (f, a, want): (&str, _, bool) = match k {
            0..=3 => ("increment", args!(e), !paused),
            4 | 5 => ("emergency_reset", args!(e), paused),
            6 | 7 => ("pause", args!(e, u[caller]), !paused && caller == 0 && signed),
            _ => ("unpause", args!(e, u[caller]), paused && caller == 0 && signed),
        };
        if signed {
            w.auth(&[(u[caller].clone(), Inv::new(&c, f, a.clone()))]);
        } else {
            w.no_auth();
        }
        let got: Result<Val, Fail> = invoke(e, &c, f, a);
        rep.evaluations += 1;
        rep.op(format!("#{step} {f} caller={caller} signed={signed} (paused={paused}) -> {}", tag(&got)));
        rep.case(format!("pausable/{f}/paused={paused}/owner={}/signed={signed}/{}", caller == 0, tag(&got)));
        rep.count(&format!("pausable:{f}:{}", tag(&got)));
        if got.is_ok() && f == "increment" {
            rep.check("pause", !paused, "C16/pause/pausable/increment/ran-while-paused", || format!("increment succeeded while paused at step {step}"));
        }
        rep.check("ref", got.is_ok() == want, &format!("C16/ref/pausable/{f}/outcome"), || format!("{f} caller {caller} signed {signed} with paused={paused}: expected ok={want}, got {got:?}"));
        if got.is_ok() {
            match f {
                "increment" => counter += 1,
                "emergency_reset" => counter = 0,
                "pause" => {
                    paused = true;
                    transitions.push(true);
                }
                _ => {
                    paused = false;
                    transitions.push(false);
                }
            }
        }
        let p: bool = invoke(e, &c, "paused", args!(e)).must("paused");
        rep.check("ref", p == paused, "C16/ref/pausable/paused-flag", || format!("paused() = {p}, model {paused}"));
        // counter is observable through increment's return value only; compare when it ran
        if let (Ok(v), "increment") = (&got, f) {
            let r: i32 = <i32 as soroban_sdk::TryFromVal<_, Val>>::try_from_val(e, v).unwrap();
            rep.check("ref", r == counter, "C16/ref/pausable/counter", || format!("increment returned {r}, model {counter}"));
        }
    }
    let alternates = transitions.windows(2).all(|x| x[0] != x[1]) && transitions.first().map_or(true, |f| *f);
    rep.check("pause", alternates, "C16/pause/pausable/pause-unpause-do-not-alternate", || format!("successful pause(true)/unpause(false) sequence: {transitions:?}"));
    rep.end_history();
}

// ------------------------------------------------------------------ pause + lists on tokens
/// Entry points that carry an owner guard AND a pause guard (both orders): both must hold.
fn stacked_guards(cfg: &Cfg, rep: &mut Report, h: u64) {
    let mut rng = Rng::for_history(cfg.seed, "C16", cfg.shard, h);
    rep.begin_history(h);
    let w = World::new(100, 16);
    let e = &w.env;
    let u = w.accounts(2);
    let c = e.register(crate::contracts::misc::StackedGuards, (u[0].clone(),));
    let mut paused = false;
    for step in 0..60 {
        let k = rng.below(10);
        if k < 3 {
            let f = if paused { "unpause" } else { "pause" };
            e.mock_all_auths();
            invoke::<()>(e, &c, f, args!(e)).expect("pause toggle of the wrapper");
            paused = !paused;
            rep.op(format!("#{step} {f}"));
            continue;
        }
        let f = *rng.pick(&["owner_then_pause", "pause_then_owner", "owner_then_paused"]);
        let who = if rng.chance(2, 3) { 0 } else { 1 };
        let signed = rng.chance(5, 6);
        if signed {
            w.auth(&[(u[who].clone(), Inv::new(&c, f, args!(e)))]);
        } else {
            w.no_auth();
        }
        let before: u32 = invoke(e, &c, "count", args!(e)).unwrap();
        if signed {
            w.auth(&[(u[who].clone(), Inv::new(&c, f, args!(e)))]);
        }
        let got: Result<Val, Fail> = invoke(e, &c, f, args!(e));
        let after: u32 = invoke(e, &c, "count", args!(e)).unwrap();
        rep.evaluations += 1;
        let pause_ok = if f == "owner_then_paused" { paused } else { !paused };
        let want = pause_ok && who == 0 && signed;
        rep.op(format!("#{step} {f} by {} signed={signed} paused={paused} -> {}", if who == 0 { "owner" } else { "stranger" }, tag(&got)));
        rep.case(format!("stacked/{f}/paused={paused}/owner={}/signed={signed}/{}", who == 0, tag(&got)));
        if got.is_ok() {
            rep.check("pause", pause_ok, &format!("C16/pause/stacked-guards/{f}/ran-in-the-wrong-pause-state"), || format!("{f} ran with paused={paused}"));
            rep.check("auth", who == 0 && signed, &format!("C16/auth/stacked-guards/{f}/ran-without-owner"), || format!("{f} ran for {} signed={signed}", if who == 0 { "the owner" } else { "a stranger" }));
        }
        rep.check("ref", got.is_ok() == want, &format!("C16/ref/stacked-guards/{f}/outcome"), || format!("{f} by {} signed={signed} paused={paused}: expected ok={want}, got {got:?}", if who == 0 { "owner" } else { "stranger" }));
        rep.check("res", after == before + if got.is_ok() { 1 } else { 0 }, &format!("C16/res/stacked-guards/{f}/body-ran"), || format!("counter {before} -> {after} with {got:?}"));
    }
    rep.end_history();
}

fn token_history(cfg: &Cfg, rep: &mut Report, fl: Flavour, h: u64, steps: usize) {
    let mut rng = Rng::for_history(cfg.seed, "C16", cfg.shard, h);
    rep.begin_history(h);
    let w = World::new(100 + rng.below(30) as u32, 16);
    let n = 5;
    let (tok, _) = Token::deploy_with(&w, fl, n, 1 << 40, true);
    let e = tok.env();
    let mut m = FModel::new(n);
    if Token::ctor_mints(fl) {
        m.bal[OWNER] = 1 << 40;
        m.supply = 1 << 40;
    }
    if fl == Flavour::ExAllow {
        m.listed[OWNER] = true; // the example's constructor allows the admin
    }
    rep.op(format!("deploy {} ledger={}", fl.name(), w.ledger()));
    let mut pre = tok.observe();
    for step in 0..steps {
        // time passes: a gate that was closed stays closed however long nobody looks at it (list entries
        // and the pause flag do not lapse), allowances expire as they should
        if rng.chance(1, 10) {
            let t = w.ledger() + *rng.pick(&[1u32, 17, 40, 600, 5000, 600_000]);
            w.set_ledger(t);
            rep.op(format!("#{step} ledger -> {t}"));
            rep.count("ledger_moves");
            pre = tok.observe();
            let ms = m.state(t);
            rep.check("ref", pre == ms, &format!("C16/ref/{}/ledger-move/state", fl.name()), || format!("after moving to ledger {t}: observed {pre:?}, model {ms:?}"));
        }
        let cur = w.ledger();
        let max_live = e.ledger().max_live_until_ledger();
        // gate toggles
        if fl == Flavour::ExPausable && rng.chance(1, 6) {
            let f = if rng.chance(1, 2) { "pause" } else { "unpause" };
            e.mock_all_auths();
            let got: Result<(), Fail> = invoke(e, &tok.addr, f, args!(e, tok.u[OWNER]));
            let want = (f == "pause") != m.paused;
            rep.op(format!("#{step} {f} -> {}", tag(&got)));
            rep.check("pause", got.is_ok() == want, &format!("C16/pause/{}/{f}/alternation", fl.name()), || format!("{f} with paused={}: {got:?}", m.paused));
            if got.is_ok() {
                m.paused = f == "pause";
            }
            // the flag as the token reports it; a stranger's (signed) pause / unpause must not move it
            let pz: bool = invoke(e, &tok.addr, "paused", args!(e)).must("paused");
            rep.check("pause", pz == m.paused, &format!("C16/pause/{}/paused-getter", fl.name()), || format!("after {f} -> {}: paused() = {pz}, model {}", tag(&got), m.paused));
            let g = if m.paused { "unpause" } else { "pause" };
            tok.w.auth(&[(tok.u[n - 2].clone(), crate::world::Inv::new(&tok.addr, g, args!(e, tok.u[n - 2])))]);
            let sg: Result<(), Fail> = invoke(e, &tok.addr, g, args!(e, tok.u[n - 2]));
            let pz2: bool = invoke(e, &tok.addr, "paused", args!(e)).must("paused");
            rep.check("auth", sg.is_err() && pz2 == m.paused, &format!("C16/auth/{}/{g}/by-stranger", fl.name()), || format!("{g} by an account that is not the owner: {sg:?}, paused() now {pz2}"));
            continue;
        }
        if (fl.is_allow() || fl.is_block()) && rng.chance(1, 4) {
            let who = rng.idx(n);
            let to = rng.chance(1, 2);
            let got = tok.set_listed(who, to);
            let evs = obs::events(e).into_iter().filter(|x| x.contract == tok.addr).count();
            let changed = m.listed[who] != to;
            rep.evaluations += 1;
            rep.op(format!("#{step} list[{who}] := {to} -> {} ({evs} events)", tag(&got)));
            rep.case(format!("{}/list-change/changed={changed}/{}", fl.name(), tag(&got)));
            rep.check("list", got.is_ok(), &format!("C16/list/{}/list-change-refused", fl.name()), || format!("{got:?}"));
            // idempotent: a repeated allow/block emits nothing and changes nothing
            rep.check("list", evs == if changed { 1 } else { 0 }, &format!("C16/list/{}/list-change-not-idempotent", fl.name()), || format!("setting list[{who}] to {to} (was {}) emitted {evs} events", m.listed[who]));
            m.listed[who] = to;
            let now = tok.is_listed(who);
            rep.check("list", now == to, &format!("C16/list/{}/list-change-not-immediate", fl.name()), || format!("after setting list[{who}] to {to}, getter says {now}"));
            for i in 0..n {
                let g = tok.is_listed(i);
                rep.check("list", g == m.listed[i], &format!("C16/list/{}/other-account-status-changed", fl.name()), || format!("status of {i} is {g}, model {}", m.listed[i]));
            }
            continue;
        }
        let op = if step < 4 {
            if fl.has_mint() { Op::Mint { to: step, a: 1000 } } else { Op::Transfer { from: OWNER, to: step, a: 1000 } }
        } else {
            let mut op = gen_op(&mut rng, &m, fl, cur, max_live);
            // keep amounts serviceable so that the gates, not the balances, decide
            let small = |a: i128, cap: i128| if a < 0 || a > cap { cap.min(7) } else { a };
            op = match op {
                Op::Transfer { from, to, a } => Op::Transfer { from, to, a: small(a, m.bal[from]) },
                Op::TransferFrom { sp, from, to, a } => Op::TransferFrom { sp, from, to, a: small(a, m.bal[from].min(m.allowance(from, sp, cur))) },
                Op::Burn { from, a } => Op::Burn { from, a: small(a, m.bal[from]) },
                Op::BurnFrom { sp, from, a } => Op::BurnFrom { sp, from, a: small(a, m.bal[from].min(m.allowance(from, sp, cur))) },
                Op::Approve { owner, sp, a, .. } => Op::Approve { owner, sp, a: a.max(0).min(1 << 50), l: cur + 500 },
                x => x,
            };
            op
        };
        let want = m.predict(&op, cur, max_live, fl);
        // the last address is a classic account; named as a multiplexed recipient two times out of
        // three (the gates vet the underlying account)
        let mux = matches!(op, Op::Transfer { to, .. } if to == n - 1) && rng.chance(2, 3);
        tok.mux_to.set(if mux { Some(1 + rng.below(1 << 40)) } else { None });
        let got = tok.exec(&op, None);
        tok.mux_to.set(None);
        if mux {
            rep.count(&format!("muxed_transfer:{}", tag(&got)));
        }
        rep.evaluations += 1;
        let post = tok.observe();
        rep.evaluations += (n * n + n + 1) as u64;
        // which vetted parties are on the wrong side of the list
        let vetted: Vec<usize> = match &op {
            Op::Transfer { from, to, .. } | Op::TransferFrom { from, to, .. } => vec![*from, *to],
            Op::Approve { owner, .. } => vec![*owner],
            Op::Burn { from, .. } | Op::BurnFrom { from, .. } => vec![*from],
            Op::Mint { .. } => vec![],
        };
        let offending: Vec<usize> = vetted.iter().filter(|i| if fl.is_allow() { !m.listed[**i] } else if fl.is_block() { m.listed[**i] } else { false }).cloned().collect();
        let assign: String = vetted.iter().map(|i| if m.listed[*i] { '1' } else { '0' }).collect();
        rep.op(format!("#{step} @{cur} {op:?} (paused={}, list status of vetted parties {assign}) -> {}", m.paused, tag(&got)));
        rep.case(format!("{}/{}/vetted={assign}/paused={}/{}", fl.name(), op.name(), m.paused, tag(&got)));
        rep.count(&format!("{}:{}:{}", fl.name(), op.name(), if got.is_ok() { "ok" } else { "refused" }));
        let site = format!("{}/{}", fl.name(), op.name());
        if got.is_ok() {
            rep.check("list", offending.is_empty(), &format!("C16/list/{site}/passed-with-unvetted-party"), || {
                format!("{op:?} succeeded although parties {offending:?} are {} (list flags {:?})", if fl.is_allow() { "not allowed" } else { "blocked" }, m.listed)
            });
            if fl == Flavour::ExPausable && !matches!(op, Op::Approve { .. }) {
                rep.check("pause", !m.paused, &format!("C16/pause/{site}/ran-while-paused"), || format!("{op:?} succeeded while paused"));
            }
        }
        rep.check("ref", got.is_ok() == want.is_ok(), &format!("C16/ref/{site}/outcome"), || {
            format!("{op:?}: model expects {want:?} (paused {}, list flags {:?}), contract answered {got:?}", m.paused, m.listed)
        });
        match &got {
            Err(_) => rep.check("res", post == pre, &format!("C16/res/{site}/refused-call-left-a-trace"), || format!("{op:?} refused with {got:?}: {pre:?} -> {post:?}")),
            Ok(()) => {
                if want.is_ok() {
                    m.apply(&op);
                    let ms = m.state(cur);
                    rep.check("ref", post == ms, &format!("C16/ref/{site}/state"), || format!("{op:?}: observed {post:?}, model {ms:?}"))
                } else {
                    // keep going from what is there (one defect, one signature)
                    m.bal = post.bal.clone();
                    m.supply = post.supply;
                    for ((o, s), v) in m.allow.iter_mut() {
                        if v.1 >= cur {
                            v.0 = post.allow[o * n + s];
                        }
                    }
                    true
                }
            }
        };
        pre = post;
    }
    rep.end_history();
}

/// Every entry point under every assignment of list status to its parties (fresh token each).
fn list_sweep(cfg: &Cfg, rep: &mut Report) {
    let mut k = 0u64;
    for fl in [Flavour::Allow, Flavour::Block, Flavour::ExAllow, Flavour::ExBlock] {
        for ep in ["transfer", "transfer_from", "approve", "burn", "burn_from"] {
            if (ep == "burn" || ep == "burn_from") && !fl.has_burn() {
                continue;
            }
            for mask in 0u32..8 {
                k += 1;
                let h = 5000 + k;
                if h % cfg.nshards as u64 != cfg.shard as u64 || !cfg.runs(h) {
                    continue;
                }
                rep.begin_history(h);
                let w = World::new(100, 16);
                let n = 5;
                let (tok, _) = Token::deploy(&w, fl, n, 1 << 40);
                // parties: from = 2, to = 3, spender = 4 (owner/admin 0 funds from)
                let (from, to, sp) = (2usize, 3usize, 4usize);
                // open all gates, fund, approve, then apply the assignment
                for i in 0..n {
                    tok.set_listed(i, fl.is_allow()).unwrap();
                }
                if fl.has_mint() {
                    tok.exec(&Op::Mint { to: from, a: 1000 }, None).unwrap();
                } else {
                    tok.exec(&Op::Transfer { from: OWNER, to: from, a: 1000 }, None).unwrap();
                }
                tok.exec(&Op::Approve { owner: from, sp, a: 1000, l: w.ledger() + 100 }, None).unwrap();
                let bad = |bit: u32| mask >> bit & 1 == 1;
                // "bad" = not allowed / blocked
                for (who, bit) in [(from, 0u32), (to, 1), (sp, 2)] {
                    if bad(bit) {
                        tok.set_listed(who, !fl.is_allow()).unwrap();
                    }
                }
                let op = match ep {
                    "transfer" => Op::Transfer { from, to, a: 10 },
                    "transfer_from" => Op::TransferFrom { sp, from, to, a: 10 },
                    "approve" => Op::Approve { owner: from, sp, a: 5, l: w.ledger() + 50 },
                    "burn" => Op::Burn { from, a: 10 },
                    _ => Op::BurnFrom { sp, from, a: 10 },
                };
                let pre = tok.observe();
                let got = tok.exec(&op, None);
                let post = tok.observe();
                rep.evaluations += 1;
                // documented vetting: from & to for transfers, owner for approve, from for burns; never the spender
                let must_pass = match ep {
                    "transfer" | "transfer_from" => !bad(0) && !bad(1),
                    _ => !bad(0),
                };
                rep.op(format!("{} {ep} with from/to/spender {} -> {}", fl.name(), (0..3).map(|b| if bad(b) { "x" } else { "ok" }).collect::<Vec<_>>().join("/"), tag(&got)));
                rep.case(format!("sweep/{}/{ep}/mask={mask:03b}/{}", fl.name(), tag(&got)));
                if got.is_ok() {
                    rep.check("list", must_pass, &format!("C16/list/{}/{ep}/passed-with-unvetted-party", fl.name()), || {
                        format!("{ep} succeeded with from {} / to {} / spender {} on the wrong side of the list", bad(0), bad(1), bad(2))
                    });
                } else {
                    rep.check("ref", !must_pass, &format!("C16/ref/{}/{ep}/refused-with-all-vetted-parties-in-order", fl.name()), || format!("{ep} refused ({got:?}) although every vetted party is in order (spender listed wrongly: {})", bad(2)));
                    rep.check("res", pre == post, &format!("C16/res/{}/{ep}/refused-call-left-a-trace", fl.name()), || format!("{pre:?} -> {post:?}"));
                }
                rep.end_history();
            }
        }
    }
}

// ------------------------------------------------------------------ cap
/// A capped token whose cap was never set has no room at all: every mint is refused until a cap is named.
fn cap_never_set(cfg: &Cfg, rep: &mut Report) {
    let h = 3_900u64;
    if cfg.shard != 3 % cfg.nshards || !cfg.runs(h) {
        return;
    }
    rep.begin_history(h);
    let w = World::new(100, 16);
    let e = &w.env;
    let u = w.accounts(2);
    let c = e.register(crate::contracts::tokens::TokCapLate, ());
    e.mock_all_auths();
    for a in [0i128, 1, 1000, i128::MAX] {
        let got: Result<(), Fail> = invoke(e, &c, "mint", args!(e, u[0], a));
        rep.evaluations += 1;
        rep.case(format!("capped/cap-never-set/mint/{}", tag(&got)));
        rep.check("cap", got.is_err(), "C16/cap/capped-wrapper/mint/passed-without-any-cap-set", || format!("mint of {a} succeeded on a capped token whose cap was never set"));
    }
    let ts: i128 = invoke(e, &c, "total_supply", args!(e)).must("total_supply");
    rep.check("cap", ts == 0, "C16/cap/capped-wrapper/mint/passed-without-any-cap-set", || format!("total supply {ts} with no cap ever set"));
    invoke::<()>(e, &c, "set_cap", args!(e, 10i128)).unwrap();
    let ok: Result<(), Fail> = invoke(e, &c, "mint", args!(e, u[0], 10i128));
    let over: Result<(), Fail> = invoke(e, &c, "mint", args!(e, u[1], 1i128));
    rep.check("ref", ok.is_ok() && over.is_err(), "C16/ref/capped-wrapper/mint/outcome", || format!("cap 10: mint 10 -> {ok:?}, then mint 1 -> {over:?}"));
    rep.count("cap_never_set");
    rep.end_history();
}

fn capped(cfg: &Cfg, rep: &mut Report, h: u64) {
    let mut rng = Rng::for_history(cfg.seed, "C16", cfg.shard, h);
    rep.begin_history(h);
    let w = World::new(100, 16);
    let e = &w.env;
    let u = w.accounts(3);
    let cap: i128 = *rng.pick(&[0i128, 1, 1000, 1 << 70, i128::MAX - 1, i128::MAX]);
    let c = e.register(examples::fungible_capped::ExampleContract, (cap,));
    e.mock_all_auths();
    let mut supply: i128 = 0;
    rep.op(format!("deploy capped token cap={cap}"));
    for step in 0..80 {
        let room = cap - supply;
        let a = *rng.pick(&[0i128, 1, room, room.saturating_add(1), room - 1, room / 2, i128::MAX, i128::MAX - supply, -1, 7, (i128::MAX - supply).saturating_add(1)]);
        let to = rng.idx(3);
        let got: Result<(), Fail> = invoke(e, &c, "mint", args!(e, u[to], a));
        rep.evaluations += 1;
        let want = a >= 0 && supply.checked_add(a).map_or(false, |s| s <= cap);
        let ts: i128 = invoke(e, &c, "total_supply", args!(e)).must("total_supply");
        let cls = if a < 0 { "neg" } else if supply.checked_add(a).is_none() { "overflow" } else if supply + a > cap { "above-cap" } else if supply + a == cap { "at-cap" } else { "below-cap" };
        rep.op(format!("#{step} mint {a} (supply {supply}, cap {cap}) -> {}", tag(&got)));
        rep.case(format!("cap/{cls}/cap-class={}/{}", if cap == 0 { "zero" } else if cap >= i128::MAX - 1 { "max" } else { "mid" }, tag(&got)));
        rep.count(&format!("cap:{}", tag(&got)));
        rep.check("cap", ts <= cap, "C16/cap/fungible-capped/mint/supply-above-cap", || format!("after mint {a} -> {got:?}: total_supply {ts} > cap {cap}"));
        rep.check("ref", got.is_ok() == want, "C16/ref/fungible-capped/mint/outcome", || format!("mint {a} with supply {supply}, cap {cap}: expected ok={want}, got {got:?}"));
        if got.is_ok() {
            // the supply is what the successful mints add up to (sum of balances), not what the token reports
            if want {
                supply += a;
            } else {
                supply = ts;
            }
            rep.check("cap", ts == supply, "C16/cap/fungible-capped/mint/supply-differs-from-minted", || format!("after a successful mint of {a}: total_supply {ts}, successful mints add up to {supply}"));
        } else {
            rep.check("res", ts == supply, "C16/res/fungible-capped/mint/refused-mint-changed-supply", || format!("supply {supply} -> {ts}"));
        }
        let bsum: i128 = (0..3).map(|i| invoke::<i128>(e, &c, "balance", args!(e, u[i])).must("balance")).sum();
        rep.check("cap", bsum <= cap && bsum == supply, "C16/cap/fungible-capped/mint/balances-above-cap-or-off-supply", || format!("after mint {a} -> {got:?}: balances add up to {bsum}, supply model {supply}, cap {cap}"));
    }
    rep.end_history();
}

// ------------------------------------------------------------------ migration flag
fn migration(cfg: &Cfg, rep: &mut Report, h: u64) {
    let mut rng = Rng::for_history(cfg.seed, "C16", cfg.shard, h);
    rep.begin_history(h);
    let w = World::new(100, 16);
    let e = &w.env;
    let u = w.accounts(2);
    let c = e.register(Migr, (u[0].clone(),));
    let mut flag = false;
    let mut done: u32 = 0;
    rep.op("deploy native migratable contract".into());
    for step in 0..40 {
        let k = rng.below(10);
        if k < 3 {
            e.mock_all_auths();
            invoke::<()>(e, &c, "simulate_upgrade_flag", args!(e)).unwrap();
            flag = true;
            rep.op(format!("#{step} upgrade step sets the migration flag"));
        } else {
            let op_i = if rng.chance(4, 5) { 0 } else { 1 };
            let signed = rng.chance(5, 6);
            let a = args!(e, MigData { n: step as u32 }, u[op_i]);
            if signed {
                w.auth(&[(u[op_i].clone(), Inv::new(&c, "migrate", a.clone()))]);
            } else {
                w.no_auth();
            }
            let got: Result<(), Fail> = invoke(e, &c, "migrate", a);
            rep.evaluations += 1;
            let want = flag && op_i == 0 && signed;
            rep.op(format!("#{step} migrate by {op_i} signed={signed} (flag {flag}) -> {}", tag(&got)));
            rep.case(format!("migrate/flag={flag}/owner={}/signed={signed}/{}", op_i == 0, tag(&got)));
            rep.count(&format!("migrate:{}", tag(&got)));
            if got.is_ok() {
                rep.check("migrate", flag, "C16/migrate/native/migrated-without-upgrade", || format!("migrate succeeded at step {step} with no upgrade since the last migration"));
            }
            rep.check("ref", got.is_ok() == want, "C16/ref/native/migrate/outcome", || format!("migrate flag={flag} operator {op_i} signed {signed}: expected ok={want}, got {got:?}"));
            if got.is_ok() {
                flag = false;
                done += 1;
            }
        }
        let n: u32 = invoke(e, &c, "migrations", args!(e)).unwrap();
        let f: bool = invoke(e, &c, "flag", args!(e)).unwrap();
        rep.check("migrate", n == done && f == flag, "C16/migrate/native/migration-count-or-flag", || format!("migrations run {n} (model {done}), flag {f} (model {flag})"));
    }
    rep.end_history();
}

/// The working tree's macro-generated `upgrade` on the v1 example, swapping to the repository's
/// prebuilt v2 wasm (no wasm target is installed): v2's migrate must then work exactly once.
fn real_upgrade(cfg: &Cfg, rep: &mut Report, h: u64) {
    let _ = cfg;
    rep.begin_history(h);
    let wasm_path = format!("{}/examples/upgradeable/testdata/upgradeable_v2_example.wasm", std::env::var("VERIF_REPO").unwrap_or("/repo".into()));
    let Ok(bytes) = std::fs::read(&wasm_path) else {
        rep.notes.push(format!("prebuilt wasm not found at {wasm_path}; upgrade->migrate hand-over not exercised"));
        rep.end_history();
        return;
    };
    let w = World::new(100, 16);
    let e = &w.env;
    let u = w.accounts(2);
    let c = e.register(examples::upgradeable_v1::ExampleContract, (u[0].clone(),));
    e.mock_all_auths();
    let hash: BytesN<32> = e.deployer().upload_contract_wasm(Bytes::from_slice(e, &bytes));
    // migrate does not exist on v1
    // upgrade by a stranger is refused, by the owner accepted
    let a = args!(e, hash.clone(), u[1]);
    w.auth(&[(u[1].clone(), Inv::new(&c, "upgrade", a.clone()))]);
    let r: Result<(), Fail> = invoke(e, &c, "upgrade", a);
    rep.check("migrate", r.is_err(), "C16/migrate/upgradeable-v1/upgrade-by-stranger", || format!("{r:?}"));
    let a = args!(e, hash.clone(), u[0]);
    w.auth(&[(u[0].clone(), Inv::new(&c, "upgrade", a.clone()))]);
    let r: Result<(), Fail> = invoke(e, &c, "upgrade", a);
    rep.evaluations += 2;
    rep.op(format!("v1.upgrade(v2 wasm) by owner -> {}", tag(&r)));
    if r.is_err() {
        rep.notes.push(format!("upgrade to the prebuilt wasm failed in this host ({r:?}); hand-over not exercised"));
        rep.end_history();
        return;
    }
    // now the contract runs the prebuilt v2: migrate(Data{num1,num2}, operator)
    let mut data: soroban_sdk::Map<soroban_sdk::Symbol, u32> = soroban_sdk::Map::new(e);
    data.set(soroban_sdk::Symbol::new(e, "num1"), 1);
    data.set(soroban_sdk::Symbol::new(e, "num2"), 2);
    e.mock_all_auths();
    let r1: Result<(), Fail> = invoke(e, &c, "migrate", args!(e, data.clone(), u[0]));
    e.mock_all_auths();
    let r2: Result<(), Fail> = invoke(e, &c, "migrate", args!(e, data.clone(), u[0]));
    rep.evaluations += 2;
    rep.op(format!("v2.migrate -> {} ; again -> {}", tag(&r1), tag(&r2)));
    rep.case(format!("real-upgrade/{}/{}", tag(&r1), tag(&r2)));
    rep.check("migrate", r1.is_ok(), "C16/migrate/upgradeable-v1/migration-refused-after-upgrade", || format!("first migrate after the working tree's upgrade: {r1:?}"));
    rep.check("migrate", r2.is_err(), "C16/migrate/upgradeable-v1/migrated-twice-after-one-upgrade", || format!("second migrate: {r2:?}"));
    rep.count("real_upgrades");
    // second generation: a contract that ALREADY derives UpgradeableMigratable (native, working-tree
    // macro) is upgraded through its generated `upgrade`; the successor must be able to migrate once
    let c2 = e.register(Migr, (u[0].clone(),));
    let a = args!(e, hash.clone(), u[0]);
    w.auth(&[(u[0].clone(), Inv::new(&c2, "upgrade", a.clone()))]);
    let r: Result<(), Fail> = invoke(e, &c2, "upgrade", a);
    rep.evaluations += 1;
    rep.op(format!("migratable.upgrade(v2 wasm) by owner -> {}", tag(&r)));
    if r.is_ok() {
        e.mock_all_auths();
        let r1: Result<(), Fail> = invoke(e, &c2, "migrate", args!(e, data.clone(), u[0]));
        e.mock_all_auths();
        let r2: Result<(), Fail> = invoke(e, &c2, "migrate", args!(e, data.clone(), u[0]));
        rep.evaluations += 2;
        rep.op(format!("successor.migrate -> {} ; again -> {}", tag(&r1), tag(&r2)));
        rep.case(format!("second-generation-upgrade/{}/{}", tag(&r1), tag(&r2)));
        rep.check("migrate", r1.is_ok(), "C16/migrate/derived-migratable/migration-refused-after-upgrade", || format!("first migrate after the derived UpgradeableMigratable::upgrade: {r1:?}"));
        rep.check("migrate", r2.is_err(), "C16/migrate/derived-migratable/migrated-twice-after-one-upgrade", || format!("second migrate: {r2:?}"));
        rep.count("second_generation_upgrades");
    } else {
        rep.notes.push(format!("derived upgrade to the prebuilt wasm failed in this host ({r:?})"));
    }
    rep.end_history();
}

pub fn run(cfg: &Cfg, rep: &mut Report) {
    rep.rule = "(a) pausable and fungible-pausable examples: histories of every pausable entry point with pause/unpause by owner and strangers, signed or not; a wrapper whose entry points carry an owner guard and a pause guard stacked in both orders; (b) allow/block lists on wrappers wiring all five overridden entry points and on the two examples: random histories with list toggles and ledger jumps of up to 600 000 (beyond every lifetime extension the library asks for) plus an exhaustive sweep entry point x assignment of list status to (from, to, spender); (c) fungible-capped example: mints around cap-supply and i128 overflow for caps {0,1,1000,2^70,MAX-1,MAX}, and a capped wrapper whose cap was never set (no mint passes); (d) migration: natively registered UpgradeableMigratable contract (flag set as upgrade sets it) and the v1 example upgraded by the working tree's macro to the repository's prebuilt v2 wasm. Distinct case = (mechanism, entry point, gate/list assignment vector, outcome).".into();
    cap_never_set(cfg, rep);
    let nh = cfg.pick(12u64, 80);
    for k in 0..nh {
        if cfg.runs(k) {
            pausable_example(cfg, rep, k);
        }
        for (fi, fl) in [Flavour::ExPausable, Flavour::Allow, Flavour::Block, Flavour::ExAllow, Flavour::ExBlock].iter().enumerate() {
            let h = 1000 + fi as u64 * 100 + k;
            if cfg.runs(h) {
                token_history(cfg, rep, *fl, h, cfg.pick(160, 300));
            }
        }
        if cfg.runs(3000 + k) {
            capped(cfg, rep, 3000 + k);
        }
        if cfg.runs(4000 + k) {
            migration(cfg, rep, 4000 + k);
        }
        if cfg.runs(6000 + k) {
            stacked_guards(cfg, rep, 6000 + k);
        }
    }
    list_sweep(cfg, rep);
    if cfg.runs(9000) && cfg.shard == 0 {
        real_upgrade(cfg, rep, 9000);
    }
    rep.floor_on("cap_mints", 20, &["cap:ok"]);
    rep.floor_on("migrations", 10, &["migrate:ok"]);
}
