//! C05 — vault share accounting always rounds in the vault's favour.
//! DIFF (BigInt oracle for conversions/previews), REF (preview == return == movements of exactly the
//! named parties), INV (share price never decreases), round trips, LOG (Deposit/Withdraw events).
//! The same engine serves C01 (share conservation + event fold) and C02 (operator path under exact
//! authorization) through `Mode`.
use crate::args;
use crate::contracts::tokens::TokBase;
use crate::examples;
use crate::obs;
use crate::report::Report;
use crate::rng::Rng;
use crate::world::{Must, invoke, tag, Fail, Inv, World};
use crate::Cfg;
use num_bigint::BigInt;
use num_integer::Integer;
use num_traits::{ToPrimitive, Zero};
use soroban_sdk::{Address, String as SString, Val, Vec as SVec};
use std::collections::BTreeMap;

#[derive(Clone, Copy, PartialEq, Eq, Debug)]
pub enum Mode {
    Rounding,
    Conservation,
    Auth,
}

impl Mode {
    fn prop(&self) -> &'static str {
        match self {
            Mode::Rounding => "C05",
            Mode::Conservation => "C01",
            Mode::Auth => "C02",
        }
    }
}

#[derive(Clone, Debug)]
enum Op {
    Deposit { assets: i128, receiver: usize, from: usize, operator: usize },
    Mint { shares: i128, receiver: usize, from: usize, operator: usize },
    Withdraw { assets: i128, receiver: usize, owner: usize, operator: usize },
    Redeem { shares: i128, receiver: usize, owner: usize, operator: usize },
    ShareTransfer { from: usize, to: usize, a: i128 },
    /// allowance-based movement of the share token itself
    ShareTransferFrom { sp: usize, from: usize, to: usize, a: i128 },
    ShareApprove { owner: usize, sp: usize, a: i128, l: u32 },
    AssetApprove { owner: usize, sp: usize, a: i128, l: u32 },
    Donate { from: usize, a: i128 },
    AssetMint { to: usize, a: i128 },
}

impl Op {
    fn name(&self) -> &'static str {
        match self {
            Op::Deposit { .. } => "deposit",
            Op::Mint { .. } => "mint",
            Op::Withdraw { .. } => "withdraw",
            Op::Redeem { .. } => "redeem",
            Op::ShareTransfer { .. } => "transfer",
            Op::ShareTransferFrom { .. } => "transfer_from",
            Op::ShareApprove { .. } => "approve",
            Op::AssetApprove { .. } => "asset.approve",
            Op::Donate { .. } => "asset.donate",
            Op::AssetMint { .. } => "asset.mint",
        }
    }
}

#[derive(Clone, Debug, PartialEq)]
struct VState {
    shares: Vec<i128>, // per user, last index = the vault itself
    assets: Vec<i128>, // per user, last index = the vault itself
    supply: i128,
    share_allow: Vec<i128>,
    asset_allow: Vec<i128>,
}

struct V {
    w: World,
    vault: Address,
    asset: Address,
    /// users, then the vault address as last element
    u: Vec<Address>,
    offset: u32,
}

impl V {
    fn n(&self) -> usize {
        self.u.len()
    }
    fn observe(&self) -> VState {
        let e = &self.w.env;
        let n = self.n();
        let mut s = VState { shares: vec![], assets: vec![], supply: 0, share_allow: vec![], asset_allow: vec![] };
        for i in 0..n {
            s.shares.push(invoke(e, &self.vault, "balance", args!(e, self.u[i])).must("balance"));
            s.assets.push(invoke(e, &self.asset, "balance", args!(e, self.u[i])).must("balance"));
        }
        for o in 0..n {
            for sp in 0..n {
                s.share_allow.push(invoke(e, &self.vault, "allowance", args!(e, self.u[o], self.u[sp])).must("allowance"));
                s.asset_allow.push(invoke(e, &self.asset, "allowance", args!(e, self.u[o], self.u[sp])).must("allowance"));
            }
        }
        s.supply = invoke(e, &self.vault, "total_supply", args!(e)).must("total_supply");
        s
    }
    fn getter(&self, f: &str, v: i128) -> Result<i128, Fail> {
        let e = &self.w.env;
        invoke(e, &self.vault, f, args!(e, v))
    }
    fn getter_addr(&self, f: &str, who: usize) -> Result<i128, Fail> {
        let e = &self.w.env;
        invoke(e, &self.vault, f, args!(e, self.u[who]))
    }
}

fn pow10(o: u32) -> BigInt {
    BigInt::from(10u32).pow(o)
}

/// Exact conversion; None where the implementation must fail (negative input, i128 overflow of an
/// operand it forms, or of the result).
fn conv_shares(assets: i128, s: i128, a: i128, off: u32, ceil: bool) -> Option<i128> {
    if assets < 0 {
        return None;
    }
    if assets == 0 {
        return Some(0);
    }
    let y = (BigInt::from(s) + pow10(off)).to_i128()?;
    let d = a.checked_add(1)?;
    let p = BigInt::from(assets) * BigInt::from(y);
    let q = if ceil { p.div_ceil(&BigInt::from(d)) } else { p.div_floor(&BigInt::from(d)) };
    q.to_i128()
}

fn conv_assets(shares: i128, s: i128, a: i128, off: u32, ceil: bool) -> Option<i128> {
    if shares < 0 {
        return None;
    }
    if shares == 0 {
        return Some(0);
    }
    let y = a.checked_add(1)?;
    let d = (BigInt::from(s) + pow10(off)).to_i128()?;
    let p = BigInt::from(shares) * BigInt::from(y);
    let q = if ceil { p.div_ceil(&BigInt::from(d)) } else { p.div_floor(&BigInt::from(d)) };
    q.to_i128()
}

fn amount_class(v: i128) -> &'static str {
    match v {
        i128::MIN..=-1 => "neg",
        0 => "zero",
        1..=9 => "tiny",
        10..=1_000_000 => "small",
        1_000_001..=0xFFFF_FFFF_FFFF_FFFF => "mid",
        _ => "huge",
    }
}

pub fn history(cfg: &Cfg, rep: &mut Report, h: u64, steps: usize, mode: Mode, offset: u32) {
    let p = mode.prop();
    let mut rng = Rng::for_history(cfg.seed, p, cfg.shard, h ^ 0x5050);
    rep.begin_history(h);
    let w = World::new(100 + rng.below(20) as u32, if rng.chance(1, 2) { 1 } else { 16 });
    let e = &w.env;
    let asset = e.register(TokBase, ());
    let vault = e.register(examples::fungible_vault::ExampleContract, (SString::from_str(e, "V"), SString::from_str(e, "V"), asset.clone(), offset));
    let nu = 4;
    let mut u = w.accounts(nu);
    u.push(vault.clone());
    let v = V { w, vault: vault.clone(), asset: asset.clone(), u, offset };
    let e = &v.w.env;
    let n = v.n();
    let vi = n - 1; // index of the vault itself
    rep.op(format!("deploy vault offset={offset} users={nu} ledger={}", v.w.ledger()));
    // model of allowances (amount, live_until) for the two tokens
    let mut share_allow: BTreeMap<(usize, usize), (i128, u32)> = BTreeMap::new();
    let mut asset_allow: BTreeMap<(usize, usize), (i128, u32)> = BTreeMap::new();
    let huge = rng.chance(1, 4); // some histories run with amounts near 2^126
    let mut pre = v.observe();
    let mut fold_sh = vec![0i128; n];
    let mut fold_supply = 0i128;
    let mut nev = 0u64;
    let mut last_deposit: Option<(usize, i128, i128)> = None; // (user, assets in, shares out) for round trips
    for step in 0..steps {
        if rng.chance(1, 20) {
            // to the expiry lattice of a live share / asset allowance when there is one, else a random hop
            let cur0 = v.w.ledger();
            let mut targets: Vec<u32> = vec![cur0 + 1 + rng.below(30) as u32];
            for (_, (a, l)) in share_allow.iter().chain(asset_allow.iter()) {
                if *a > 0 && *l >= cur0 {
                    targets.extend([*l, *l + 1]);
                }
            }
            // (rarely far beyond every lifetime extension: shares and assets must not lapse)
            let t = if rng.chance(1, 10) { cur0 + 600_000 } else { (*rng.pick(&targets)).max(cur0 + 1) };
            v.w.set_ledger(t);
            rep.op(format!("ledger -> {t}"));
            pre = v.observe();
            last_deposit = None;
        }
        let cur = v.w.ledger();
        let al = |m: &BTreeMap<(usize, usize), (i128, u32)>, o: usize, s: usize| -> i128 {
            match m.get(&(o, s)) {
                Some((a, l)) if *l >= cur => *a,
                _ => 0,
            }
        };
        let (a_tot, s_tot) = (pre.assets[vi], pre.supply);
        // the receiver is the vault itself once in twenty operations
        let x = if step > nu + 2 && rng.chance(1, 20) { vi } else { rng.idx(nu) };
        // payer and operator are always users: only mocked authorization could make the vault sign
        let y = if rng.chance(1, 3) && x != vi { x } else { rng.idx(nu) };
        let z = if rng.chance(1, 2) && x != vi { x } else { rng.idx(nu) };
        let amt = |rng: &mut Rng, around: &[i128]| -> i128 {
            let mut c: Vec<i128> = vec![0, 1, 2, 3, 7, 10, 999, 1000, 1001, 1_000_000_007, -1];
            for a in around {
                c.extend([*a, a.saturating_add(1), a.saturating_sub(1), a / 2, a / 3]);
            }
            if huge {
                c.extend([1i128 << 100, (1i128 << 126) - 1, 1i128 << 126, i128::MAX, i128::MAX - 1]);
            }
            let k = rng.below(12);
            if k == 0 {
                10i128.pow(rng.below(30) as u32) + rng.range(-1, 1) as i128
            } else {
                *rng.pick(&c)
            }
        };
        let op = if step < nu {
            Op::AssetMint { to: step, a: if huge { 1i128 << 124 } else { *rng.pick(&[1_000_000i128, 10i128.pow(18), 12345]) } }
        } else if step == nu && rng.chance(1, 4) {
            // a donation into the still empty vault (assets without shares), the first deposit comes later
            Op::Donate { from: 0, a: *rng.pick(&[1i128, 1000, 999_999]) }
        } else if step == nu || (step == nu + 1 && s_tot == 0) {
            Op::Deposit { assets: *rng.pick(&[1i128, 1000, 999_999]), receiver: 0, from: 0, operator: 0 }
        } else {
            // round trip immediately after a deposit, sometimes
            if let (Some((usr, _ain, sh)), true) = (last_deposit, rng.chance(1, 3)) {
                Op::Redeem { shares: sh, receiver: usr, owner: usr, operator: usr }
            } else {
                match rng.below(100) {
                    0..=19 => Op::Deposit { assets: amt(&mut rng, &[pre.assets[y], al(&asset_allow, y, z)]), receiver: x, from: y, operator: z_or(y, z, &mut rng) },
                    20..=34 => Op::Mint { shares: amt(&mut rng, &[pre.shares[x], s_tot]), receiver: x, from: y, operator: z_or(y, z, &mut rng) },
                    35..=52 => {
                        let mw = conv_assets(pre.shares[y], s_tot, a_tot, offset, false).unwrap_or(0);
                        Op::Withdraw { assets: amt(&mut rng, &[mw, a_tot]), receiver: x, owner: y, operator: z_or(y, z, &mut rng) }
                    }
                    53..=70 => Op::Redeem { shares: amt(&mut rng, &[pre.shares[y], al(&share_allow, y, z)]), receiver: x, owner: y, operator: z_or(y, z, &mut rng) },
                    71..=74 => Op::ShareTransfer { from: y, to: if rng.chance(1, 12) { vi } else { x }, a: amt(&mut rng, &[pre.shares[y]]) },
                    75..=77 => {
                        // spender: somebody with an allowance on record when there is one
                        let sp = share_allow.keys().filter(|(o, _)| *o == y).map(|(_, s)| *s).next().unwrap_or_else(|| rng.idx(nu));
                        Op::ShareTransferFrom { sp, from: y, to: if rng.chance(1, 4) { sp } else { x }, a: amt(&mut rng, &[pre.shares[y], al(&share_allow, y, sp)]) }
                    }
                    78..=85 => Op::ShareApprove { owner: y, sp: rng.idx(nu), a: amt(&mut rng, &[pre.shares[y]]).max(0), l: cur + rng.below(50) as u32 },
                    86..=91 => Op::AssetApprove { owner: y, sp: rng.idx(nu), a: amt(&mut rng, &[pre.assets[y]]).max(0), l: cur + rng.below(50) as u32 },
                    92..=96 => Op::Donate { from: y, a: amt(&mut rng, &[pre.assets[y], a_tot]).max(0) },
                    _ => Op::AssetMint { to: y, a: amt(&mut rng, &[]).max(0) },
                }
            }
        };
        // ---------- model prediction (exact) ----------
        let sh_al = |o: usize, s: usize| al(&share_allow, o, s);
        let as_al = |o: usize, s: usize| al(&asset_allow, o, s);
        // (ok, assets moved, shares moved)
        let predicted: Option<(i128, i128)> = match &op {
            Op::Deposit { assets, from, operator, .. } => conv_shares(*assets, s_tot, a_tot, offset, false).and_then(|sh| {
                let pay_ok = pre.assets[*from] >= *assets && (operator == from || as_al(*from, *operator) >= *assets);
                if pay_ok && s_tot.checked_add(sh).is_some() && a_tot.checked_add(*assets).is_some() {
                    Some((*assets, sh))
                } else {
                    None
                }
            }),
            Op::Mint { shares, from, operator, .. } => conv_assets(*shares, s_tot, a_tot, offset, true).and_then(|asn| {
                let pay_ok = pre.assets[*from] >= asn && (operator == from || as_al(*from, *operator) >= asn);
                if pay_ok && s_tot.checked_add(*shares).is_some() && a_tot.checked_add(asn).is_some() {
                    Some((asn, *shares))
                } else {
                    None
                }
            }),
            Op::Withdraw { assets, owner, operator, receiver } => {
                let maxw = conv_assets(pre.shares[*owner], s_tot, a_tot, offset, false);
                match maxw {
                    Some(mw) if *assets <= mw => conv_shares(*assets, s_tot, a_tot, offset, true).and_then(|sh| {
                        let allow_ok = operator == owner || sh_al(*owner, *operator) >= sh;
                        let recv_ok = *receiver == vi || pre.assets[*receiver].checked_add(*assets).is_some();
                        if allow_ok && pre.shares[*owner] >= sh && a_tot >= *assets && recv_ok {
                            Some((*assets, sh))
                        } else {
                            None
                        }
                    }),
                    _ => None,
                }
            }
            Op::Redeem { shares, owner, operator, .. } => {
                if *shares > pre.shares[*owner] {
                    None
                } else {
                    conv_assets(*shares, s_tot, a_tot, offset, false).and_then(|asn| {
                        let allow_ok = operator == owner || sh_al(*owner, *operator) >= *shares;
                        if allow_ok && a_tot >= asn {
                            Some((asn, *shares))
                        } else {
                            None
                        }
                    })
                }
            }
            Op::ShareTransfer { from, a, .. } => if *a >= 0 && pre.shares[*from] >= *a { Some((0, *a)) } else { None },
            Op::ShareTransferFrom { sp, from, a, .. } => if *a >= 0 && pre.shares[*from] >= *a && sh_al(*from, *sp) >= *a { Some((0, *a)) } else { None },
            Op::ShareApprove { .. } | Op::AssetApprove { .. } => Some((0, 0)),
            Op::Donate { from, a } => if pre.assets[*from] >= *a { Some((*a, 0)) } else { None },
            Op::AssetMint { a, .. } => {
                let tot: Option<i128> = pre.assets.iter().try_fold(0i128, |acc, b| acc.checked_add(*b));
                tot.and_then(|t| t.checked_add(*a)).map(|_| (*a, 0))
            }
        };
        // ---------- previews taken immediately before ----------
        let preview: Option<Result<i128, Fail>> = match &op {
            Op::Deposit { assets, .. } => Some(v.getter("preview_deposit", *assets)),
            Op::Mint { shares, .. } => Some(v.getter("preview_mint", *shares)),
            Op::Withdraw { assets, .. } => Some(v.getter("preview_withdraw", *assets)),
            Op::Redeem { shares, .. } => Some(v.getter("preview_redeem", *shares)),
            _ => None,
        };
        // ---------- DIFF on all conversion getters for a probe value ----------
        if mode == Mode::Rounding {
            let probe = match &op {
                Op::Deposit { assets: q, .. } | Op::Withdraw { assets: q, .. } | Op::Mint { shares: q, .. } | Op::Redeem { shares: q, .. } => *q,
                _ => amt(&mut rng, &[s_tot, a_tot]),
            };
            let checks: [(&str, Option<i128>); 6] = [
                ("convert_to_shares", conv_shares(probe, s_tot, a_tot, offset, false)),
                ("convert_to_assets", conv_assets(probe, s_tot, a_tot, offset, false)),
                ("preview_deposit", conv_shares(probe, s_tot, a_tot, offset, false)),
                ("preview_mint", conv_assets(probe, s_tot, a_tot, offset, true)),
                ("preview_withdraw", conv_shares(probe, s_tot, a_tot, offset, true)),
                ("preview_redeem", conv_assets(probe, s_tot, a_tot, offset, false)),
            ];
            for (f, want) in checks {
                let got = v.getter(f, probe).ok();
                rep.evaluations += 1;
                rep.check("diff", got == want, &format!("C05/diff/{f}"), || {
                    format!("{f}({probe}) with total_assets={a_tot} total_supply={s_tot} offset={offset}: contract {got:?}, exact {want:?}")
                });
            }
            // the vault's own idea of its assets is the asset token's balance of the vault
            {
                let ta: Result<i128, Fail> = invoke(&v.w.env, &v.vault, "total_assets", args!(&v.w.env));
                rep.check("diff", ta == Ok(a_tot), "C05/diff/total_assets", || format!("total_assets() = {ta:?}, the asset token says the vault holds {a_tot}"));
            }
            for who in 0..nu {
                let mw = v.getter_addr("max_withdraw", who).ok();
                let want = conv_assets(pre.shares[who], s_tot, a_tot, offset, false);
                rep.check("diff", mw == want, "C05/diff/max_withdraw", || format!("max_withdraw(user {who}) = {mw:?}, exact {want:?} (shares {}, A={a_tot}, S={s_tot})", pre.shares[who]));
                let mr = v.getter_addr("max_redeem", who).ok();
                rep.check("diff", mr == Some(pre.shares[who]), "C05/diff/max_redeem", || format!("max_redeem(user {who}) = {mr:?}, balance {}", pre.shares[who]));
                // documented: deposits and mints are not limited
                let md = v.getter_addr("max_deposit", who).ok();
                let mm = v.getter_addr("max_mint", who).ok();
                rep.check("diff", md == Some(i128::MAX) && mm == Some(i128::MAX), "C05/diff/max_deposit-max_mint", || format!("max_deposit(user {who}) = {md:?}, max_mint = {mm:?}; documented: i128::MAX"));
            }
        }
        // ---------- execute ----------
        let (contract, f, a, principal, nested): (&Address, &str, SVec<Val>, usize, Option<Inv>) = match &op {
            Op::Deposit { assets, receiver, from, operator } => {
                let nested = if operator == from {
                    Inv::new(&asset, "transfer", args!(e, v.u[*from], vault, *assets))
                } else {
                    Inv::new(&asset, "transfer_from", args!(e, v.u[*operator], v.u[*from], vault, *assets))
                };
                (&vault, "deposit", args!(e, *assets, v.u[*receiver], v.u[*from], v.u[*operator]), *operator, Some(nested))
            }
            Op::Mint { shares, receiver, from, operator } => {
                let asn = conv_assets(*shares, s_tot, a_tot, offset, true).unwrap_or(0);
                let nested = if operator == from {
                    Inv::new(&asset, "transfer", args!(e, v.u[*from], vault, asn))
                } else {
                    Inv::new(&asset, "transfer_from", args!(e, v.u[*operator], v.u[*from], vault, asn))
                };
                (&vault, "mint", args!(e, *shares, v.u[*receiver], v.u[*from], v.u[*operator]), *operator, Some(nested))
            }
            Op::Withdraw { assets, receiver, owner, operator } => (&vault, "withdraw", args!(e, *assets, v.u[*receiver], v.u[*owner], v.u[*operator]), *operator, None),
            Op::Redeem { shares, receiver, owner, operator } => (&vault, "redeem", args!(e, *shares, v.u[*receiver], v.u[*owner], v.u[*operator]), *operator, None),
            Op::ShareTransfer { from, to, a } => (&vault, "transfer", args!(e, v.u[*from], v.u[*to], *a), *from, None),
            Op::ShareTransferFrom { sp, from, to, a } => (&vault, "transfer_from", args!(e, v.u[*sp], v.u[*from], v.u[*to], *a), *sp, None),
            Op::ShareApprove { owner, sp, a, l } => (&vault, "approve", args!(e, v.u[*owner], v.u[*sp], *a, *l), *owner, None),
            Op::AssetApprove { owner, sp, a, l } => (&asset, "approve", args!(e, v.u[*owner], v.u[*sp], *a, *l), *owner, None),
            Op::Donate { from, a } => (&asset, "transfer", args!(e, v.u[*from], vault, *a), *from, None),
            Op::AssetMint { to, a } => (&asset, "mint", args!(e, v.u[*to], *a), usize::MAX, None),
        };
        // authorization: C02 mode signs with a chosen subset, the other modes mock everything
        let mut signers: Vec<usize> = vec![];
        let mut authorized = true;
        let vault_op = matches!(op, Op::Deposit { .. } | Op::Mint { .. } | Op::Withdraw { .. } | Op::Redeem { .. } | Op::ShareTransfer { .. } | Op::ShareTransferFrom { .. } | Op::ShareApprove { .. });
        if mode == Mode::Auth && vault_op {
            signers = if rng.chance(1, 2) {
                vec![principal]
            } else {
                let mask = rng.below(1 << nu);
                (0..nu).filter(|i| mask >> i & 1 == 1).collect()
            };
            authorized = signers.contains(&principal);
            let mut inv = Inv::new(contract, f, a.clone());
            if let Some(nst) = nested.clone() {
                inv = inv.with(nst);
            }
            let entries: Vec<(Address, Inv)> = signers.iter().map(|i| (v.u[*i].clone(), inv.clone())).collect();
            v.w.auth(&entries);
        } else {
            e.mock_all_auths();
        }
        v.w.reset_budget();
        let got: Result<Val, Fail> = invoke(e, contract, f, a);
        let ret: Option<i128> = got.as_ref().ok().and_then(|x| <i128 as soroban_sdk::TryFromVal<_, Val>>::try_from_val(e, x).ok());
        let evs = obs::events(e);
        rep.evaluations += 1;
        let post = v.observe();
        rep.evaluations += (2 * n + 2 * n * n + 1) as u64;
        rep.op(format!("#{step} @{cur} {op:?}{} -> {}{} [A={} S={}]", if mode == Mode::Auth { format!(" signed by {signers:?}") } else { String::new() }, tag(&got), ret.map_or(String::new(), |r| format!("({r})")), post.assets[vi], post.supply));
        if let Err(Fail::Budget) = got {
            rep.count("budget_errors");
        }
        rep.count(&format!("{}:{}", op.name(), tag(&got)));
        let vclass = if s_tot == 0 { "empty" } else if BigInt::from(a_tot) * pow10(offset) > BigInt::from(s_tot) * 2 { "skewed" } else { "fresh" };
        let site = format!("vault/{}", op.name());
        let want_ok = predicted.is_some() && authorized;
        match mode {
            Mode::Rounding => {
                let q = match &op {
                    Op::Deposit { assets: q, .. } | Op::Withdraw { assets: q, .. } | Op::Mint { shares: q, .. } | Op::Redeem { shares: q, .. } => *q,
                    _ => 0,
                };
                let inexact = match &op {
                    Op::Deposit { assets, .. } | Op::Withdraw { assets, .. } => !(BigInt::from(*assets) * (BigInt::from(s_tot) + pow10(offset)) % BigInt::from(a_tot.saturating_add(1))).is_zero(),
                    Op::Mint { shares, .. } | Op::Redeem { shares, .. } => !(BigInt::from(*shares) * BigInt::from(a_tot.saturating_add(1)) % (BigInt::from(s_tot) + pow10(offset))).is_zero(),
                    _ => false,
                };
                rep.case(format!("off={offset}/{}/{vclass}/{}/inexact={inexact}/{}", op.name(), amount_class(q), tag(&got)));
                // Close to i128::MAX which call must fail depends on the intermediate sums an
                // implementation happens to form (S + 10^offset, A + 1, balance + amount); there only
                // the successful calls are judged (movements, rounding, previews below).
                let big = |x: i128| x >= 1i128 << 125;
                let fragile = big(a_tot) || big(s_tot) || big(q) || pre.assets.iter().any(|x| big(*x)) || pre.shares.iter().any(|x| big(*x));
                if fragile {
                    rep.count("outcome_not_judged_near_i128_max");
                }
                rep.check("ref", fragile || got.is_ok() == want_ok, &format!("C05/ref/{site}/outcome"), || {
                    format!("{op:?} with A={a_tot} S={s_tot} offset={offset}: exact model predicts {predicted:?}, contract answered {got:?}; state {pre:?}")
                });
            }
            Mode::Conservation => rep.case(format!("vault/{}/{vclass}/{}", op.name(), tag(&got))),
            Mode::Auth => {
                let rel = match &op {
                    Op::Withdraw { owner, operator, .. } | Op::Redeem { owner, operator, .. } => {
                        if owner == operator {
                            "self".to_string()
                        } else {
                            format!("operator(allow={})", if sh_al(*owner, *operator) == 0 { "none" } else { "some" })
                        }
                    }
                    Op::Deposit { from, operator, .. } | Op::Mint { from, operator, .. } => (if from == operator { "self" } else { "operator" }).to_string(),
                    _ => "-".into(),
                };
                rep.case(format!("vault/{}/{rel}/auth={authorized}/{}", op.name(), tag(&got)));
                if got.is_ok() && vault_op {
                    rep.check("auth", authorized, &format!("C02/auth/{site}/succeeded-without-principal"), || format!("{op:?} succeeded; principal {principal}, signers {signers:?}"));
                }
                if vault_op {
                    rep.check("ref", got.is_ok() == want_ok, &format!("C02/ref/{site}/outcome"), || {
                        format!("{op:?} signed by {signers:?}: model predicts {predicted:?} authorized={authorized}, contract answered {got:?}; share allowances {share_allow:?}")
                    });
                }
            }
        }
        match &got {
            Err(_) => {
                rep.check("res", post == pre, &format!("{p}/res/{site}/state-changed-by-failed-call"), || format!("{op:?} failed with {got:?}: {pre:?} -> {post:?}"));
                last_deposit = None;
            }
            Ok(_) => {
                // maintain allowance models
                match &op {
                    Op::ShareApprove { owner, sp, a, l } => {
                        share_allow.insert((*owner, *sp), (*a, *l));
                    }
                    Op::AssetApprove { owner, sp, a, l } => {
                        asset_allow.insert((*owner, *sp), (*a, *l));
                    }
                    _ => {}
                }
                if let Some((asn, sh)) = predicted {
                    // expected movements of exactly the named parties
                    let mut want = pre.clone();
                    match &op {
                        Op::Deposit { receiver, from, operator, .. } | Op::Mint { receiver, from, operator, .. } => {
                            want.assets[*from] -= asn;
                            want.assets[vi] += asn;
                            want.shares[*receiver] += sh;
                            want.supply += sh;
                            if operator != from && asn > 0 {
                                want.asset_allow[*from * n + *operator] -= asn;
                                asset_allow.get_mut(&(*from, *operator)).map(|x| x.0 -= asn);
                            }
                        }
                        Op::Withdraw { receiver, owner, operator, .. } | Op::Redeem { receiver, owner, operator, .. } => {
                            want.shares[*owner] -= sh;
                            want.supply -= sh;
                            want.assets[vi] -= asn;
                            want.assets[*receiver] += asn;
                            if operator != owner && sh > 0 {
                                want.share_allow[*owner * n + *operator] -= sh;
                                share_allow.get_mut(&(*owner, *operator)).map(|x| x.0 -= sh);
                            }
                        }
                        Op::ShareTransfer { from, to, a } => {
                            want.shares[*from] -= a;
                            want.shares[*to] += a;
                        }
                        Op::ShareTransferFrom { sp, from, to, a } => {
                            want.shares[*from] -= a;
                            want.shares[*to] += a;
                            if *a > 0 {
                                want.share_allow[*from * n + *sp] -= a;
                                share_allow.get_mut(&(*from, *sp)).map(|x| x.0 -= a);
                            }
                        }
                        Op::ShareApprove { owner, sp, a, .. } => want.share_allow[*owner * n + *sp] = *a,
                        Op::AssetApprove { owner, sp, a, .. } => want.asset_allow[*owner * n + *sp] = *a,
                        Op::Donate { from, a } => {
                            want.assets[*from] -= a;
                            want.assets[vi] += a;
                        }
                        Op::AssetMint { to, a } => want.assets[*to] += a,
                    }
                    if mode == Mode::Rounding || mode == Mode::Auth {
                        rep.check("ref", post == want, &format!("{p}/ref/{site}/movements"), || {
                            format!("{op:?} (exact assets {asn}, shares {sh}): observed {post:?}, expected {want:?}")
                        });
                    }
                    if mode == Mode::Rounding {
                        let want_ret = match &op {
                            Op::Deposit { .. } | Op::Withdraw { .. } => Some(sh),
                            Op::Mint { .. } | Op::Redeem { .. } => Some(asn),
                            _ => None,
                        };
                        if let Some(wr) = want_ret {
                            rep.check("ref", ret == Some(wr), &format!("C05/ref/{site}/return-value"), || format!("{op:?} returned {ret:?}, exact {wr}"));
                            let pv = preview.clone().and_then(|x| x.ok());
                            rep.check("ref", pv == ret, &format!("C05/ref/{site}/preview-differs-from-execution"), || format!("{op:?}: preview {pv:?}, execution returned {ret:?}"));
                        }
                    }
                }
                // INV: share price never decreases (cross-multiplied, exact)
                if mode == Mode::Rounding {
                    let pw = pow10(offset);
                    let lhs = (BigInt::from(post.assets[vi]) + 1) * (BigInt::from(pre.supply) + &pw);
                    let rhs = (BigInt::from(pre.assets[vi]) + 1) * (BigInt::from(post.supply) + &pw);
                    rep.check("inv", lhs >= rhs, &format!("C05/inv/{site}/share-price-decreased"), || {
                        format!("{op:?}: (A,S) went ({},{}) -> ({},{}) with offset {offset}: (A'+1)(S+P) < (A+1)(S'+P)", pre.assets[vi], pre.supply, post.assets[vi], post.supply)
                    });
                    // round trip: deposit then redeem of exactly the received shares
                    if let (Op::Redeem { shares, owner, .. }, Some((usr, ain, sh))) = (&op, last_deposit) {
                        if *owner == usr && *shares == sh {
                            let out = ret.unwrap_or(0);
                            rep.check("inv", out <= ain, "C05/inv/vault/round-trip-profit", || format!("deposited {ain} for {sh} shares, redeemed them at once for {out}"));
                            rep.count("round_trips");
                        }
                    }
                    // LOG: the Deposit / Withdraw event carries the exact tuple
                    let mine: Vec<_> = evs.iter().filter(|x| x.contract == vault && (x.name == "deposit" || x.name == "withdraw")).collect();
                    match &op {
                        Op::Deposit { receiver, from, operator, .. } | Op::Mint { receiver, from, operator, .. } => {
                            let ok = mine.len() == 1
                                && mine[0].name == "deposit"
                                && mine[0].addr(e, 0).as_ref() == Some(&v.u[*operator])
                                && mine[0].addr(e, 1).as_ref() == Some(&v.u[*from])
                                && mine[0].addr(e, 2).as_ref() == Some(&v.u[*receiver])
                                && mine[0].i128("assets") == predicted.map(|x| x.0)
                                && mine[0].i128("shares") == predicted.map(|x| x.1);
                            rep.check("log", ok, &format!("C05/log/{site}/deposit-event"), || format!("{op:?}: events {mine:?}"));
                        }
                        Op::Withdraw { receiver, owner, operator, .. } | Op::Redeem { receiver, owner, operator, .. } => {
                            let ok = mine.len() == 1
                                && mine[0].name == "withdraw"
                                && mine[0].addr(e, 0).as_ref() == Some(&v.u[*operator])
                                && mine[0].addr(e, 1).as_ref() == Some(&v.u[*receiver])
                                && mine[0].addr(e, 2).as_ref() == Some(&v.u[*owner])
                                && mine[0].i128("assets") == predicted.map(|x| x.0)
                                && mine[0].i128("shares") == predicted.map(|x| x.1);
                            rep.check("log", ok, &format!("C05/log/{site}/withdraw-event"), || format!("{op:?}: events {mine:?}"));
                        }
                        _ => {}
                    }
                }
                last_deposit = match &op {
                    Op::Deposit { assets, receiver, from, operator } if receiver == from && from == operator && ret.unwrap_or(0) > 0 => Some((*receiver, *assets, ret.unwrap())),
                    _ => None,
                };
                // C02: model-independent monitors on the share token
                if mode == Mode::Auth {
                    for hld in 0..nu {
                        let dec = pre.shares[hld] - post.shares[hld];
                        if dec > 0 {
                            let ok = match &op {
                                Op::Withdraw { owner, operator, .. } | Op::Redeem { owner, operator, .. } => {
                                    *owner == hld && signers.contains(operator) && (operator == owner || pre.share_allow[hld * n + *operator] >= dec)
                                }
                                Op::ShareTransfer { from, .. } => *from == hld && signers.contains(&hld),
                                Op::ShareTransferFrom { sp, from, .. } => *from == hld && signers.contains(sp) && pre.share_allow[hld * n + *sp] >= dec,
                                _ => false,
                            };
                            rep.check("decrease", ok, &format!("C02/decrease/{site}/unauthorized-share-decrease"), || {
                                format!("{op:?} signed by {signers:?} lowered the shares of {hld} by {dec}; share allowances before {:?}", pre.share_allow)
                            });
                            if let Op::Withdraw { owner, operator, .. } | Op::Redeem { owner, operator, .. } = &op {
                                if owner != operator {
                                    let spent = pre.share_allow[hld * n + *operator] - post.share_allow[hld * n + *operator];
                                    rep.check("allowance", spent == dec, &format!("C02/allowance/{site}/operator-spend-differs-from-shares-burned"), || {
                                        format!("{op:?}: owner lost {dec} shares, operator's allowance went down by {spent}")
                                    });
                                    rep.count("operator_spends");
                                }
                            }
                        }
                    }
                }
            }
        }
        // event fold for the share token: deposit / withdraw / transfer
        for ev in evs.iter().filter(|x| x.contract == vault) {
            let ix = |i: usize| ev.addr(e, i).and_then(|a| v.u.iter().position(|x| *x == a));
            match ev.name.as_str() {
                "deposit" => {
                    if let (Some(r), Some(sh)) = (ix(2), ev.i128("shares")) {
                        fold_sh[r] += sh;
                        fold_supply += sh;
                        nev += 1;
                    }
                }
                "withdraw" => {
                    if let (Some(o), Some(sh)) = (ix(2), ev.i128("shares")) {
                        fold_sh[o] -= sh;
                        fold_supply -= sh;
                        nev += 1;
                    }
                }
                "transfer" => {
                    if let (Some(f), Some(t), Some(a)) = (ix(0), ix(1), ev.i128("amount")) {
                        fold_sh[f] -= a;
                        fold_sh[t] += a;
                        nev += 1;
                    }
                }
                _ => {}
            }
        }
        if mode == Mode::Conservation {
            let sum: i128 = post.shares.iter().sum();
            rep.check("inv", sum == post.supply && post.shares.iter().all(|b| *b >= 0), &format!("C01/inv/{site}/sum-of-balances"), || {
                format!("after {op:?}: shares {:?}, supply {}", post.shares, post.supply)
            });
            rep.check("log", fold_sh == post.shares && fold_supply == post.supply, "C01/log/vault/replay-from-genesis", || {
                format!("after {op:?}: fold of {nev} deposit/withdraw/transfer events gives {fold_sh:?}/{fold_supply}; contract says {:?}/{}", post.shares, post.supply)
            });
            if got.is_ok() {
                let d = post.supply - pre.supply;
                let wd = match (&op, ret) {
                    (Op::Deposit { .. }, Some(r)) => r,
                    (Op::Withdraw { .. }, Some(r)) => -r,
                    (Op::Mint { shares, .. }, _) => *shares,
                    (Op::Redeem { shares, .. }, _) => -*shares,
                    _ => 0,
                };
                rep.check("inv", d == wd, &format!("C01/inv/{site}/supply-delta"), || format!("{op:?}: share supply moved by {d}, expected {wd}"));
            }
        }
        pre = post;
    }
    rep.count_n("vault_events_folded", nev);
    rep.end_history();
}

fn z_or(y: usize, z: usize, rng: &mut Rng) -> usize {
    if rng.chance(1, 2) {
        y
    } else {
        z
    }
}

/// The rate formula is pinned by the decimals offset and the asset: each can be set exactly once (an
/// offset of 0 included), whatever comes afterwards is refused and changes nothing.
fn configured_once(cfg: &Cfg, rep: &mut Report) {
    let h = 90_000u64;
    if cfg.shard != 4 % cfg.nshards || !cfg.runs(h) {
        return;
    }
    rep.begin_history(h);
    let w = World::new(100, 16);
    let e = &w.env;
    e.mock_all_auths();
    let (a1, a2) = (w.account(), w.account());
    for first in [0u32, 1, 6, 10] {
        for second in [0u32, 3, 10, 11] {
            let c = e.register(crate::contracts::tokens::VaultLate, ());
            let too_big: Result<(), Fail> = invoke(e, &c, "set_offset", args!(e, 11u32));
            let r1: Result<(), Fail> = invoke(e, &c, "set_offset", args!(e, first));
            let r2: Result<(), Fail> = invoke(e, &c, "set_offset", args!(e, second));
            let now: u32 = invoke(e, &c, "offset", args!(e)).must("offset");
            rep.evaluations += 4;
            rep.case(format!("vault-config/offset/first={first}/second={second}/{}", tag(&r2)));
            rep.check("ref", too_big.is_err() && r1.is_ok(), "C05/ref/vault-config/set_decimals_offset/outcome", || format!("offset 11 -> {too_big:?}, then first set to {first} -> {r1:?}"));
            rep.check("ref", r2.is_err() && now == first, "C05/ref/vault-config/decimals-offset-set-twice", || format!("offset set to {first}, then to {second}: second call {r2:?}, offset now {now}"));
            let s1: Result<(), Fail> = invoke(e, &c, "set_asset", args!(e, a1.clone()));
            let s2: Result<(), Fail> = invoke(e, &c, "set_asset", args!(e, if second % 2 == 0 { a2.clone() } else { a1.clone() }));
            let q: Address = invoke(e, &c, "asset", args!(e)).must("asset");
            rep.check("ref", s1.is_ok() && s2.is_err() && q == a1, "C05/ref/vault-config/asset-set-twice", || format!("set_asset twice: {s1:?}, {s2:?}; asset is the first one: {}", q == a1));
        }
    }
    rep.count("vault_configured_once_cases");
    rep.end_history();
}

pub fn run(cfg: &Cfg, rep: &mut Report) {
    rep.rule = "Seeded histories on the real fungible-vault example over a Base asset token, one instance per decimals offset 0..=10 (every offset in every shard): deposit/mint/withdraw/redeem (self and via operator allowance), share transfers, direct asset donations, asset mints; amounts from {0,1,2,3,7,10^k+-1} and the neighbours of balances, max_withdraw, total assets and allowances, a quarter of the histories with amounts up to 2^126; the offset and the asset can each be set exactly once (an offset of 0 included); a few histories under exact authorization (nobody takes out another participant's shares without that participant's or an approved operator's signature). Distinct case = (offset, entry point, vault state {empty,fresh,skewed by donation}, amount class, inexact division?, outcome).".into();
    configured_once(cfg, rep);
    let per_off = cfg.pick(4u64, 30);
    let steps = cfg.pick(150usize, 300);
    for off in 0..=10u32 {
        for k in 0..per_off {
            let h = off as u64 * 1000 + k;
            if cfg.runs(h) {
                history(cfg, rep, h, steps, Mode::Rounding, off);
            }
        }
    }
    // "no participant takes out more than they put in" also means: not somebody else's shares. A few
    // histories run under exact authorization (the engine's C02 mode, its signatures re-labelled).
    rep.rename_prefix = Some(("C02/".into(), "C05/authorization/".into()));
    for k in 0..cfg.pick(2u64, 12) {
        let h = 80_000 + k;
        if cfg.runs(h) {
            history(cfg, rep, h, steps, Mode::Auth, (k % 11) as u32);
        }
    }
    rep.rename_prefix = None;
    rep.floor_on("deposits", 100, &["deposit:ok"]);
    rep.floor_on("redeems", 50, &["redeem:ok"]);
    rep.floor_on("round_trips", 5, &["round_trips"]);
}
