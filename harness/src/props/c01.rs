//! C01 — fungible supply is conserved and reconstructible from events.
//! INV (sum of balances = supply, non-negative), REF (independent model), RES (failed call leaves
//! nothing), LOG (event fold from genesis reproduces balances).
use crate::fung::*;
use crate::obs;
use crate::report::Report;
use crate::rng::Rng;
use crate::world::{tag, Fail, World};
use crate::Cfg;

pub fn gen_op(rng: &mut Rng, m: &FModel, fl: Flavour, cur: u32, max_live: u32) -> Op {
    let n = m.n;
    loop {
        let from = rng.idx(n);
        let to = if rng.chance(1, 6) { from } else { rng.idx(n) };
        let sp = if rng.chance(1, 8) { from } else { rng.idx(n) };
        let k = rng.below(100);
        let op = if k < 18 {
            let a = gen_amount(rng, m, None, None);
            Op::Mint { to, a }
        } else if k < 40 {
            let a = gen_amount(rng, m, Some(from), None);
            Op::Transfer { from, to, a }
        } else if k < 58 {
            let al = m.allowance(from, sp, cur);
            let a = gen_amount(rng, m, Some(from), Some(al));
            Op::TransferFrom { sp, from, to, a }
        } else if k < 78 {
            let a = gen_amount(rng, m, Some(from), None);
            let l = match rng.below(10) {
                0 => cur.saturating_sub(1),
                1 => cur,
                2 => cur + 1,
                3 => cur + 2 + rng.below(20) as u32,
                4 => max_live,
                5 => max_live.saturating_add(1),
                6 => 0,
                _ => cur + rng.below(400) as u32,
            };
            Op::Approve { owner: from, sp, a, l }
        } else if k < 90 {
            let a = gen_amount(rng, m, Some(from), None);
            Op::Burn { from, a }
        } else {
            let al = m.allowance(from, sp, cur);
            let a = gen_amount(rng, m, Some(from), Some(al));
            Op::BurnFrom { sp, from, a }
        };
        match op {
            Op::Mint { .. } if !fl.has_mint() => continue,
            Op::Burn { .. } | Op::BurnFrom { .. } if !fl.has_burn() => continue,
            _ => return op,
        }
    }
}

fn amount_class(op: &Op, m: &FModel) -> &'static str {
    let a = op.amount();
    if a < 0 {
        return "neg";
    }
    if a == 0 {
        return "zero";
    }
    let b = match op {
        Op::Transfer { from, .. } | Op::TransferFrom { from, .. } | Op::Burn { from, .. } | Op::BurnFrom { from, .. } => m.bal[*from],
        Op::Mint { .. } => {
            return if m.supply.checked_add(a).is_none() { "overflow" } else { "fits" };
        }
        Op::Approve { .. } => return "pos",
    };
    if a < b {
        "<bal"
    } else if a == b {
        "=bal"
    } else {
        ">bal"
    }
}

fn self_op(op: &Op) -> bool {
    match op {
        Op::Transfer { from, to, .. } | Op::TransferFrom { from, to, .. } => from == to,
        _ => false,
    }
}

/// One history on one flavour. Shared with other properties through `pub`.
pub fn history(cfg: &Cfg, rep: &mut Report, fl: Flavour, h: u64, steps: usize) {
    let mut rng = Rng::for_history(cfg.seed, "C01", cfg.shard, h);
    rep.begin_history(h);
    let min_temp = if rng.chance(1, 2) { 1 } else { 16 };
    let w = World::new(100 + rng.below(50) as u32, min_temp);
    let n = 5;
    let initial: i128 = *rng.pick(&[0, 1000, 1 << 40, i128::MAX / 2, i128::MAX - 3]);
    // the last address is a classic account, so that transfers can name it as a multiplexed recipient
    let (tok, ctor_evs) = Token::deploy_with(&w, fl, n, initial, true);
    let mut m = FModel::new(n);
    let mut fold = EventFold::default();
    rep.op(format!("deploy {} n={n} initial={initial} min_temp_ttl={min_temp} ledger={}", fl.name(), w.ledger()));
    if Token::ctor_mints(fl) {
        m.bal[OWNER] = initial;
        m.supply = initial;
        let got = fold.absorb(&tok, &ctor_evs, w.ledger());
        rep.check("log", got == vec![("mint".to_string(), vec![OWNER], initial)], &format!("C01/log/{}/constructor/mint-event", fl.name()), || {
            format!("constructor minted {initial} to owner, events seen: {got:?}")
        });
    }
    if fl.is_allow() {
        for i in 0..n {
            tok.set_listed(i, true).expect("allow_user");
            m.listed[i] = true;
        }
    }
    let mut pre = tok.observe();
    rep.check("ref", pre == m.state(w.ledger()), &format!("C01/ref/{}/deploy/state", fl.name()), || format!("after deploy: observed {pre:?}"));
    for step in 0..steps {
        // occasional ledger move (allowance expiry boundaries)
        if rng.chance(1, 7) {
            let cur = w.ledger();
            let mut targets: Vec<u32> = vec![cur + 1, cur + 2, cur + 17];
            // rarely, a jump beyond every lifetime extension the library asks for (balances must not lapse)
            if rng.chance(1, 10) {
                targets = vec![cur + 600_000];
            }
            for (_, (_, l)) in m.allow.iter() {
                if *l >= cur {
                    targets.extend([*l, l.saturating_add(1)]);
                }
            }
            let t = *rng.pick(&targets);
            if t > cur && t <= cur + 600_000 {
                w.set_ledger(t);
                rep.op(format!("ledger -> {t}"));
                let now = tok.observe();
                let want = m.state(t);
                rep.check("ref", now == want, &format!("C01/ref/{}/ledger-move/state", fl.name()), || {
                    format!("after moving to ledger {t}: observed {now:?} model {want:?}")
                });
                pre = now;
            }
        }
        let cur = w.ledger();
        let max_live = w.env.ledger().max_live_until_ledger();
        let op = if step < n {
            // warm-up: spread some balance so that later calls have something to move
            let a = *rng.pick(&[7i128, 1000, 1 << 40, 1 << 100]);
            if fl.has_mint() {
                Op::Mint { to: step, a: a.min(i128::MAX - m.supply) }
            } else {
                Op::Transfer { from: OWNER, to: step, a: a.min(m.bal[OWNER] / 2) }
            }
        } else {
            gen_op(&mut rng, &m, fl, cur, max_live)
        };
        // list flavours: the gates open and close during the history (a refused call must leave no trace)
        if (fl.is_allow() || fl.is_block()) && rng.chance(1, 10) {
            let who = rng.idx(n);
            let listed = rng.chance(1, 2);
            if tok.set_listed(who, listed).is_ok() {
                m.listed[who] = listed;
            }
            rep.op(format!("#{step} list status of {who} := {listed}"));
            rep.count("list_toggles");
            pre = tok.observe();
        }
        // votes flavours: delegations make every balance change move checkpoints as well
        if matches!(fl, Flavour::Votes | Flavour::ExVotes) && rng.chance(1, 8) {
            let (who, to) = (rng.idx(n), rng.idx(n));
            w.env.mock_all_auths();
            let r: Result<(), Fail> = crate::world::invoke(&w.env, &tok.addr, "delegate", crate::args!(&w.env, tok.u[who], tok.u[to]));
            rep.op(format!("#{step} delegate({who} -> {to}) -> {}", tag(&r)));
            rep.count("delegations");
            let now = tok.observe();
            rep.check("res", now == pre, &format!("C01/res/{}/delegate/changed-balances", fl.name()), || format!("delegate({who} -> {to}) moved token state {pre:?} -> {now:?}"));
        }
        // the low-level primitive behind every movement, in its four shapes (base wrapper only): whatever
        // it does, supply and balances move together - (None, None) is "mint and burn at once", a no-op
        if fl == Flavour::Base && rng.chance(1, 12) {
            let a: i128 = *rng.pick(&[0i128, 1, 7, 1000, m.bal[0], i128::MAX - m.supply, (i128::MAX - m.supply).saturating_add(1), -1]);
            let (fi, ti) = (rng.idx(n), rng.idx(n));
            let shape = rng.idx(4);
            let (from, to): (Option<soroban_sdk::Address>, Option<soroban_sdk::Address>) = match shape {
                0 => (None, None),
                1 => (None, Some(tok.u[ti].clone())),
                2 => (Some(tok.u[fi].clone()), None),
                _ => (Some(tok.u[fi].clone()), Some(tok.u[ti].clone())),
            };
            w.env.mock_all_auths();
            let r: Result<(), Fail> = crate::world::invoke(&w.env, &tok.addr, "raw_update", crate::args!(&w.env, from, to, a));
            let now = tok.observe();
            rep.evaluations += 1;
            rep.op(format!("#{step} raw update shape {shape} (from {fi}, to {ti}) amount {a} -> {}", tag(&r)));
            rep.case(format!("base/raw_update/shape={shape}/{}", tag(&r)));
            let mut want_state = pre.clone();
            let ok_model = a >= 0 && match shape {
                0 => m.supply.checked_add(a).is_some(),
                1 => m.supply.checked_add(a).is_some(),
                2 => m.bal[fi] >= a,
                _ => m.bal[fi] >= a,
            };
            if ok_model {
                match shape {
                    0 => {}
                    1 => { want_state.bal[ti] += a; want_state.supply += a; }
                    2 => { want_state.bal[fi] -= a; want_state.supply -= a; }
                    _ => { want_state.bal[fi] -= a; want_state.bal[ti] += a; }
                }
            }
            if r.is_ok() {
                rep.check("inv", now.bal.iter().sum::<i128>() == now.supply && now.bal.iter().all(|b| *b >= 0), "C01/inv/base/raw_update/sum-of-balances", || format!("after Base::update shape {shape} amount {a}: balances {:?} supply {}", now.bal, now.supply));
                rep.check("ref", ok_model && now == want_state, "C01/ref/base/raw_update/state", || format!("Base::update shape {shape} (from {fi}, to {ti}) amount {a}: observed {now:?}, expected {want_state:?} (precondition met: {ok_model})"));
                match shape {
                    1 => { m.bal[ti] += a; m.supply += a; fold.log.push((cur, "mint".into(), vec![ti], a)); }
                    2 => { m.bal[fi] -= a; m.supply -= a; fold.log.push((cur, "burn".into(), vec![fi], a)); }
                    3 => { m.bal[fi] -= a; m.bal[ti] += a; fold.log.push((cur, "transfer".into(), vec![fi, ti], a)); }
                    _ => {}
                }
            } else {
                rep.check("res", now == pre, "C01/res/base/raw_update/state-changed-by-failed-call", || format!("failed Base::update moved state {pre:?} -> {now:?}"));
            }
            pre = now;
        }
        let want = m.predict(&op, cur, max_live, fl);
        // a transfer to the classic account names it as a multiplexed address two times out of three:
        // the tokens must be credited to (and every gate evaluated on) the underlying account
        let mux = matches!(op, Op::Transfer { to, .. } if to == n - 1) && rng.chance(2, 3);
        tok.mux_to.set(if mux { Some(1 + rng.below(1 << 40)) } else { None });
        let got = tok.exec(&op, None);
        tok.mux_to.set(None);
        if mux {
            rep.count(&format!("muxed_transfer:{}", tag(&got)));
        }
        rep.evaluations += 1;
        let evs = obs::events(&w.env);
        rep.op(format!("#{step} @{cur} {op:?} -> {}", tag(&got)));
        if let Err(Fail::Budget) = got {
            rep.count("budget_errors");
        }
        rep.count(&format!("{}:{}:{}", fl.name(), op.name(), tag(&got)));
        rep.case(format!("{}/{}/{}/self={}/{}", fl.name(), op.name(), amount_class(&op, &m), self_op(&op), tag(&got)));
        let site = format!("{}/{}", fl.name(), op.name());
        // REF: success iff the model says so
        rep.check("ref", got.is_ok() == want.is_ok(), &format!("C01/ref/{site}/outcome"), || {
            format!("{op:?} at ledger {cur}: model expects {want:?}, contract answered {got:?}; model state {:?}", m.state(cur))
        });
        let post = tok.observe();
        rep.evaluations += (n * n + n + 1) as u64;
        match &got {
            Err(_) => {
                // RES: nothing changed, nothing emitted
                rep.check("res", post == pre, &format!("C01/res/{site}/state-changed-by-failed-call"), || {
                    format!("{op:?} failed with {got:?} but state moved from {pre:?} to {post:?}")
                });
                let mine = evs.iter().filter(|x| x.contract == tok.addr).count();
                rep.check("res", mine == 0, &format!("C01/res/{site}/event-from-failed-call"), || format!("{op:?} failed but {mine} events recorded"));
            }
            Ok(()) => {
                if want.is_ok() {
                    m.apply(&op);
                }
                let ms = m.state(cur);
                if want.is_ok() {
                    rep.check("ref", post == ms, &format!("C01/ref/{site}/state"), || format!("{op:?}: observed {post:?}, model {ms:?}"));
                }
                // supply delta by kind of call, straight from the statement
                let d = post.supply.wrapping_sub(pre.supply);
                let want_d = match &op {
                    Op::Mint { a, .. } => *a,
                    Op::Burn { a, .. } | Op::BurnFrom { a, .. } => -*a,
                    _ => 0,
                };
                rep.check("inv", d == want_d, &format!("C01/inv/{site}/supply-delta"), || format!("{op:?}: supply moved by {d}, expected {want_d}"));
                // LOG: exactly one balance-affecting event with the exact parties and amount
                let got_evs = fold.absorb(&tok, &evs, cur);
                let want_evs: Vec<(String, Vec<usize>, i128)> = match &op {
                    Op::Mint { to, a } => vec![("mint".into(), vec![*to], *a)],
                    Op::Transfer { from, to, a } | Op::TransferFrom { from, to, a, .. } => vec![("transfer".into(), vec![*from, *to], *a)],
                    Op::Burn { from, a } | Op::BurnFrom { from, a, .. } => vec![("burn".into(), vec![*from], *a)],
                    Op::Approve { .. } => vec![],
                };
                rep.check("log", got_evs == want_evs, &format!("C01/log/{site}/event"), || format!("{op:?}: events {got_evs:?}, expected {want_evs:?}"));
            }
        }
        // INV: conservation on the live state, whatever the model thinks
        let sum = post.bal.iter().try_fold(0i128, |acc, b| acc.checked_add(*b));
        rep.check("inv", sum == Some(post.supply), &format!("C01/inv/{site}/sum-of-balances"), || {
            format!("after {op:?}: balances {:?} sum {sum:?} != total_supply {}", post.bal, post.supply)
        });
        rep.check("inv", post.bal.iter().all(|b| *b >= 0) && post.supply >= 0, &format!("C01/inv/{site}/negative"), || format!("after {op:?}: {post:?}"));
        pre = post;
        if step % 16 == 15 || step + 1 == steps {
            match fold.fold(n) {
                Ok((b, s)) => {
                    rep.count_n("events_folded", fold.log.len() as u64);
                    rep.check("log", b == pre.bal && s == pre.supply, &format!("C01/log/{}/replay-from-genesis", fl.name()), || {
                        format!("fold of {} events gives balances {b:?} supply {s}; contract says {:?} / {}", fold.log.len(), pre.bal, pre.supply)
                    });
                }
                Err(x) => {
                    rep.violation(&format!("C01/log/{}/malformed-event", fl.name()), x);
                }
            }
        }
    }
    rep.end_history();
}

pub fn run(cfg: &Cfg, rep: &mut Report) {
    rep.rule = "Seeded random histories (mint/transfer/transfer_from/approve/burn/burn_from + ledger moves) per token flavour over a 5-address universe; amounts from the i128 boundary lattice and the neighbours of balance, allowance and MAX-supply; from==to and spender==from forced with fixed probability. Distinct case = (flavour, entry point, amount class {neg,zero,<bal,=bal,>bal,overflow,fits}, self-transfer?, outcome); a case is trivial only if refused for a negative amount, and those collapse to one case per entry point.".into();
    let nh = cfg.pick(6u64, 60);
    let steps = cfg.pick(200usize, 400);
    for (fi, fl) in ALL_FLAVOURS.iter().enumerate() {
        for k in 0..nh {
            let h = fi as u64 * 1000 + k;
            if cfg.runs(h) {
                history(cfg, rep, *fl, h, steps);
            }
        }
    }
    // RWA flavour: the C04 history engine in conservation mode (only C01's monitors active)
    for k in 0..nh {
        let h = 50_000 + k;
        if cfg.runs(h) {
            crate::props::c04::history(cfg, rep, h, steps, crate::props::c04::Mode::Conservation);
        }
    }
    // vault-share flavour: the C05 engine in conservation mode (deposit/withdraw events fold)
    for k in 0..nh {
        let h = 60_000 + k;
        if cfg.runs(h) {
            crate::props::c05::history(cfg, rep, h, steps, crate::props::c05::Mode::Conservation, (k % 11) as u32);
        }
    }
    let folded = *rep.counters.get("events_folded").unwrap_or(&0);
    rep.floor("events_folded", 100, folded);
}
