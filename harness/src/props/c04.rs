//! C04 — RWA tokens never move past the compliance, identity, freeze and pause gates.
//! REF gate oracle (2^7 sweep per holder-initiated entry point), INV 0 <= frozen <= balance,
//! REF supervisory bookkeeping, LOG exactly-once compliance hooks, RES after failures.
//! The same history engine, in conservation mode, serves C01's RWA flavour.
use crate::args;
use crate::contracts::rwa::{HookCall, MockCompliance, MockIdentity, MockModule, RealCompliance, RwaTok};
use stellar_tokens::rwa::compliance::ComplianceHook;
use crate::obs;
use crate::report::Report;
use crate::rng::Rng;
use crate::world::{Must, invoke, tag, Fail, World};
use crate::Cfg;
use soroban_sdk::{Address, Val, Vec as SVec};
use std::collections::BTreeMap;

pub struct Rwa {
    pub w: World,
    pub tok: Address,
    pub comp: Address,
    pub idv: Address,
    pub u: Vec<Address>,
}

pub fn deploy(start: u32, n: usize) -> Rwa {
    let w = World::new(start, 16);
    let e = &w.env;
    let comp = e.register(MockCompliance, ());
    let idv = e.register(MockIdentity, ());
    let tok = e.register(RwaTok, (comp.clone(), idv.clone()));
    let u = w.accounts(n);
    e.mock_all_auths();
    Rwa { w, tok, comp, idv, u }
}

impl Rwa {
    fn call<T: soroban_sdk::TryFromVal<soroban_sdk::Env, Val>>(&self, f: &str, a: SVec<Val>) -> Result<T, Fail> {
        self.w.env.mock_all_auths();
        self.w.reset_budget();
        invoke(&self.w.env, &self.tok, f, a)
    }
    pub fn log(&self) -> Vec<(u32, usize, usize, i128)> {
        let e = &self.w.env;
        let l: SVec<HookCall> = invoke(e, &self.comp, "log", args!(e)).unwrap();
        l.iter()
            .map(|h| {
                assert!(h.token == self.tok);
                (h.kind, self.idx(&h.a), self.idx(&h.b), h.amount)
            })
            .collect()
    }
    fn idx(&self, a: &Address) -> usize {
        self.u.iter().position(|x| x == a).unwrap_or(usize::MAX)
    }
    pub fn observe(&self) -> RState {
        let e = &self.w.env;
        let n = self.u.len();
        let mut s = RState::default();
        for i in 0..n {
            s.bal.push(invoke(e, &self.tok, "balance", args!(e, self.u[i])).must("balance"));
            s.frozen.push(invoke(e, &self.tok, "get_frozen_tokens", args!(e, self.u[i])).must("get_frozen_tokens"));
            s.addr_frozen.push(invoke(e, &self.tok, "is_frozen", args!(e, self.u[i])).must("is_frozen"));
        }
        for o in 0..n {
            for sp in 0..n {
                s.allow.push(invoke(e, &self.tok, "allowance", args!(e, self.u[o], self.u[sp])).must("allowance"));
            }
        }
        s.supply = invoke(e, &self.tok, "total_supply", args!(e)).must("total_supply");
        s.paused = invoke(e, &self.tok, "paused", args!(e)).must("paused");
        s
    }
}

#[derive(Clone, Debug, Default, PartialEq)]
pub struct RState {
    pub bal: Vec<i128>,
    pub frozen: Vec<i128>,
    pub addr_frozen: Vec<bool>,
    pub allow: Vec<i128>,
    pub supply: i128,
    pub paused: bool,
}

#[derive(Clone, Debug)]
struct Model {
    n: usize,
    s: RState,
    allow: BTreeMap<(usize, usize), (i128, u32)>,
    id_fail: Vec<bool>,
    deny_transfer: bool,
    deny_create: bool,
    recovery: BTreeMap<usize, usize>,
}

#[derive(Clone, Debug)]
enum Op {
    Mint { to: usize, a: i128 },
    Transfer { from: usize, to: usize, a: i128 },
    TransferFrom { sp: usize, from: usize, to: usize, a: i128 },
    Approve { owner: usize, sp: usize, a: i128, l: u32 },
    Forced { from: usize, to: usize, a: i128 },
    Burn { user: usize, a: i128 },
    Recover { old: usize, new: usize },
    FreezePartial { user: usize, a: i128 },
    UnfreezePartial { user: usize, a: i128 },
    SetFrozen { user: usize, f: bool },
    Pause,
    Unpause,
    // gate toggles on the counterpart contracts
    IdFail { user: usize, f: bool },
    Deny { t: bool, c: bool },
    SetRecovery { old: usize, new: Option<usize> },
}

impl Op {
    fn name(&self) -> &'static str {
        match self {
            Op::Mint { .. } => "mint",
            Op::Transfer { .. } => "transfer",
            Op::TransferFrom { .. } => "transfer_from",
            Op::Approve { .. } => "approve",
            Op::Forced { .. } => "forced_transfer",
            Op::Burn { .. } => "burn",
            Op::Recover { .. } => "recover_balance",
            Op::FreezePartial { .. } => "freeze_partial_tokens",
            Op::UnfreezePartial { .. } => "unfreeze_partial_tokens",
            Op::SetFrozen { .. } => "set_address_frozen",
            Op::Pause => "pause",
            Op::Unpause => "unpause",
            Op::IdFail { .. } => "toggle:identity",
            Op::Deny { .. } => "toggle:compliance",
            Op::SetRecovery { .. } => "toggle:recovery",
        }
    }
}

impl Model {
    fn allowance(&self, o: usize, s: usize, cur: u32) -> i128 {
        match self.allow.get(&(o, s)) {
            Some((a, l)) if *l >= cur => *a,
            _ => 0,
        }
    }
    fn gates_open(&self, from: usize, to: usize, a: i128) -> bool {
        !self.s.paused
            && !self.s.addr_frozen[from]
            && !self.s.addr_frozen[to]
            && self.s.bal[from] - self.s.frozen[from] >= a
            && !self.id_fail[from]
            && !self.id_fail[to]
            && !self.deny_transfer
    }
    fn predict(&self, op: &Op, cur: u32, max_live: u32) -> bool {
        let s = &self.s;
        match op {
            Op::Mint { to, a } => !self.id_fail[*to] && !self.deny_create && *a >= 0 && s.supply.checked_add(*a).is_some(),
            Op::Transfer { from, to, a } => *a >= 0 && self.gates_open(*from, *to, *a),
            Op::TransferFrom { sp, from, to, a } => *a >= 0 && self.gates_open(*from, *to, *a) && self.allowance(*from, *sp, cur) >= *a,
            Op::Approve { a, l, .. } => *a >= 0 && *l <= max_live && (*a == 0 || *l >= cur),
            Op::Forced { from, a, .. } => *a >= 0 && s.bal[*from] >= *a,
            Op::Burn { user, a } => *a >= 0 && s.bal[*user] >= *a,
            Op::Recover { old, new } => !self.id_fail[*new] && self.recovery.get(old) == Some(new),
            Op::FreezePartial { user, a } => *a >= 0 && s.frozen[*user].checked_add(*a).map_or(false, |f| f <= s.bal[*user]),
            Op::UnfreezePartial { user, a } => *a >= 0 && s.frozen[*user] >= *a,
            Op::SetFrozen { .. } => true,
            Op::Pause => !s.paused,
            Op::Unpause => s.paused,
            _ => true,
        }
    }
    fn unfreeze_shortfall(&mut self, who: usize, a: i128) {
        let free = self.s.bal[who] - self.s.frozen[who];
        if free < a {
            self.s.frozen[who] -= a - free;
        }
    }
    /// Applies a successful call; returns the compliance notification it must have produced.
    fn apply(&mut self, op: &Op) -> Vec<(u32, usize, usize, i128)> {
        match op {
            Op::Mint { to, a } => {
                self.s.bal[*to] += a;
                self.s.supply += a;
                vec![(1, *to, *to, *a)]
            }
            Op::Transfer { from, to, a } => {
                self.s.bal[*from] -= a;
                self.s.bal[*to] += a;
                vec![(0, *from, *to, *a)]
            }
            Op::TransferFrom { sp, from, to, a } => {
                if *a > 0 {
                    self.allow.get_mut(&(*from, *sp)).unwrap().0 -= a;
                }
                self.s.bal[*from] -= a;
                self.s.bal[*to] += a;
                vec![(0, *from, *to, *a)]
            }
            Op::Approve { owner, sp, a, l } => {
                self.allow.insert((*owner, *sp), (*a, *l));
                vec![]
            }
            Op::Forced { from, to, a } => {
                self.unfreeze_shortfall(*from, *a);
                self.s.bal[*from] -= a;
                self.s.bal[*to] += a;
                vec![(0, *from, *to, *a)]
            }
            Op::Burn { user, a } => {
                self.unfreeze_shortfall(*user, *a);
                self.s.bal[*user] -= a;
                self.s.supply -= a;
                vec![(2, *user, *user, *a)]
            }
            Op::Recover { old, new } => {
                let lost = self.s.bal[*old];
                if lost == 0 {
                    return vec![];
                }
                let fr = self.s.frozen[*old];
                self.s.frozen[*old] = 0;
                self.s.bal[*old] = 0;
                self.s.bal[*new] += lost;
                self.s.frozen[*new] += fr;
                if self.s.addr_frozen[*old] {
                    self.s.addr_frozen[*new] = true;
                }
                vec![(0, *old, *new, lost)]
            }
            Op::FreezePartial { user, a } => {
                self.s.frozen[*user] += a;
                vec![]
            }
            Op::UnfreezePartial { user, a } => {
                self.s.frozen[*user] -= a;
                vec![]
            }
            Op::SetFrozen { user, f } => {
                self.s.addr_frozen[*user] = *f;
                vec![]
            }
            Op::Pause => {
                self.s.paused = true;
                vec![]
            }
            Op::Unpause => {
                self.s.paused = false;
                vec![]
            }
            _ => vec![],
        }
    }
    fn state(&self, cur: u32) -> RState {
        let mut s = self.s.clone();
        s.allow = vec![0; self.n * self.n];
        for o in 0..self.n {
            for sp in 0..self.n {
                s.allow[o * self.n + sp] = self.allowance(o, sp, cur);
            }
        }
        s
    }
}

fn exec(r: &Rwa, op: &Op) -> Result<Val, Fail> {
    let e = &r.w.env;
    let u = &r.u;
    e.mock_all_auths();
    match op {
        Op::Mint { to, a } => r.call("mint", args!(e, u[*to], *a)),
        Op::Transfer { from, to, a } => r.call("transfer", args!(e, u[*from], u[*to], *a)),
        Op::TransferFrom { sp, from, to, a } => r.call("transfer_from", args!(e, u[*sp], u[*from], u[*to], *a)),
        Op::Approve { owner, sp, a, l } => r.call("approve", args!(e, u[*owner], u[*sp], *a, *l)),
        Op::Forced { from, to, a } => r.call("forced_transfer", args!(e, u[*from], u[*to], *a)),
        Op::Burn { user, a } => r.call("burn", args!(e, u[*user], *a)),
        Op::Recover { old, new } => r.call("recover_balance", args!(e, u[*old], u[*new])),
        Op::FreezePartial { user, a } => r.call("freeze_partial_tokens", args!(e, u[*user], *a)),
        Op::UnfreezePartial { user, a } => r.call("unfreeze_partial_tokens", args!(e, u[*user], *a)),
        Op::SetFrozen { user, f } => r.call("set_address_frozen", args!(e, u[*user], *f)),
        Op::Pause => r.call("pause", args!(e)),
        Op::Unpause => r.call("unpause", args!(e)),
        Op::IdFail { user, f } => invoke(e, &r.idv, "set_fail", args!(e, u[*user], *f)),
        Op::Deny { t, c } => invoke(e, &r.comp, "set_flags", args!(e, *t, *c)),
        Op::SetRecovery { old, new } => invoke(e, &r.idv, "set_recovery", args!(e, u[*old], new.map(|n| u[n].clone()))),
    }
}

// ------------------------------------------------------------------ systematic gate sweep
const GATES: [&str; 7] = ["paused", "from_frozen", "to_frozen", "amount>free", "id(from)", "id(to)", "compliance"];

fn gate_sweep(cfg: &Cfg, rep: &mut Report) {
    let mut k = 0u64;
    for ep in ["transfer", "transfer_from", "mint"] {
        let bits = if ep == "mint" { 2 } else { 7 };
        for mask in 0u32..(1 << bits) {
            for variant in 0..3u32 {
                k += 1;
                if k % cfg.nshards as u64 != cfg.shard as u64 || !cfg.runs(k) {
                    continue;
                }
                rep.begin_history(k);
                let r = deploy(100, 4);
                let e = &r.w.env;
                let (a, b, sp) = (0usize, if variant == 1 { 0 } else { 1 }, 2usize);
                // open-gate preparation: balance, allowance
                exec(&r, &Op::Mint { to: a, a: 1000 }).expect("setup mint");
                exec(&r, &Op::Approve { owner: a, sp, a: 1000, l: r.w.ledger() + 100 }).expect("setup approve");
                let amount: i128 = if variant == 2 { 1000 } else { 500 };
                let log0 = r.log();
                if ep == "mint" {
                    if mask & 1 != 0 {
                        exec(&r, &Op::IdFail { user: b, f: true }).unwrap();
                    }
                    if mask & 2 != 0 {
                        exec(&r, &Op::Deny { t: false, c: true }).unwrap();
                    }
                } else {
                    if mask & 2 != 0 {
                        exec(&r, &Op::SetFrozen { user: a, f: true }).unwrap();
                    }
                    if mask & 4 != 0 {
                        exec(&r, &Op::SetFrozen { user: b, f: true }).unwrap();
                    }
                    if mask & 8 != 0 {
                        exec(&r, &Op::FreezePartial { user: a, a: 1001 - amount }).unwrap();
                    }
                    if mask & 16 != 0 {
                        exec(&r, &Op::IdFail { user: a, f: true }).unwrap();
                    }
                    if mask & 32 != 0 {
                        exec(&r, &Op::IdFail { user: b, f: true }).unwrap();
                    }
                    if mask & 64 != 0 {
                        exec(&r, &Op::Deny { t: true, c: false }).unwrap();
                    }
                    if mask & 1 != 0 {
                        exec(&r, &Op::Pause).unwrap();
                    }
                }
                let pre = r.observe();
                let op = match ep {
                    "transfer" => Op::Transfer { from: a, to: b, a: amount },
                    "transfer_from" => Op::TransferFrom { sp, from: a, to: b, a: amount },
                    _ => Op::Mint { to: b, a: amount },
                };
                let got = exec(&r, &op);
                rep.evaluations += 1;
                let post = r.observe();
                let closed: Vec<&str> = if ep == "mint" {
                    [(1, "id(to)"), (2, "compliance")].iter().filter(|(m, _)| mask & m != 0).map(|(_, n)| *n).collect()
                } else {
                    (0..7).filter(|i| mask >> i & 1 == 1).map(|i| GATES[i]).collect()
                };
                rep.op(format!("{ep} amount={amount} self={} closed gates {closed:?} -> {}", a == b, tag(&got)));
                rep.case(format!("gate/{ep}/mask={mask:07b}/v{variant}/{}", tag(&got)));
                rep.count(&format!("sweep:{ep}:{}", if got.is_ok() { "ok" } else { "refused" }));
                if got.is_ok() {
                    rep.check("gate", closed.is_empty(), &format!("C04/gate/{ep}/passed-with-closed-gate"), || {
                        format!("{ep}({amount}) succeeded with closed gates {closed:?}; before {pre:?} after {post:?}")
                    });
                } else {
                    rep.check("gate", !closed.is_empty(), &format!("C04/gate/{ep}/refused-with-all-gates-open"), || format!("{ep}({amount}) refused with every gate open: {got:?}"));
                    rep.check("res", pre == post && r.log() == log0, &format!("C04/res/{ep}/residue-after-refusal"), || format!("refused {ep} changed state {pre:?} -> {post:?}"));
                }
                let _ = e;
                rep.end_history();
            }
        }
    }
}


// ------------------------------------------------------------------ a token that is not wired up (yet)
/// Without a compliance contract nothing can approve or be notified, without an identity verifier nobody
/// is verified: every movement must be refused until both are named, and work afterwards.
fn unwired(cfg: &Cfg, rep: &mut Report) {
    for (k, shape) in ["neither", "compliance-only", "identity-only"].iter().enumerate() {
        let h = 45_000 + k as u64;
        if h % cfg.nshards as u64 != cfg.shard as u64 || !cfg.runs(h) {
            continue;
        }
        rep.begin_history(h);
        let w = World::new(100, 16);
        let e = &w.env;
        e.mock_all_auths();
        let comp = e.register(MockCompliance, ());
        let idv = e.register(MockIdentity, ());
        let none: Option<Address> = None;
        let tok = match *shape {
            "neither" => e.register(RwaTok, (none.clone(), none.clone())),
            "compliance-only" => e.register(RwaTok, (Some(comp.clone()), none.clone())),
            _ => e.register(RwaTok, (none.clone(), Some(idv.clone()))),
        };
        let u = w.accounts(3);
        rep.op(format!("deploy RWA token wired with: {shape}"));
        // (the supervisory calls - forced transfer, burn - need the compliance contract, which they notify,
        // but no identity verifier; mint and the holder-initiated movements need both)
        let attempt = |rep: &mut Report, phase: &str, comp_wired: bool, idv_wired: bool| {
            let calls: Vec<(&str, SVec<Val>)> = vec![
                ("mint", args!(e, u[0], 10i128)),
                ("mint", args!(e, u[0], 0i128)),
                ("transfer", args!(e, u[0], u[1], 0i128)),
                ("transfer", args!(e, u[0], u[1], 1i128)),
                ("transfer_from", args!(e, u[2], u[0], u[1], 0i128)),
                ("forced_transfer", args!(e, u[0], u[1], 0i128)),
                ("burn", args!(e, u[0], 0i128)),
            ];
            for (f, a) in calls {
                e.mock_all_auths();
                let got: Result<Val, Fail> = invoke(e, &tok, f, a);
                rep.evaluations += 1;
                rep.op(format!("{phase}: {f} -> {}", tag(&got)));
                rep.case(format!("unwired/{shape}/{phase}/{f}/{}", tag(&got)));
                let gated = matches!(f, "mint" | "transfer" | "transfer_from");
                if !comp_wired {
                    rep.check("gate", got.is_err(), &format!("C04/gate/{f}/passed-on-a-token-without-compliance-contract"), || format!("{f} succeeded in phase {phase} of a token deployed with '{shape}'"));
                } else if !idv_wired && gated {
                    rep.check("gate", got.is_err(), &format!("C04/gate/{f}/passed-on-a-token-without-identity-verifier"), || format!("{f} succeeded in phase {phase} of a token deployed with '{shape}'"));
                }
            }
            let l: SVec<HookCall> = invoke(e, &comp, "log", args!(e)).unwrap();
            let s: i128 = invoke(e, &tok, "total_supply", args!(e)).must("total_supply");
            if !comp_wired {
                rep.check("res", l.is_empty() && s == 0, "C04/res/unwired/refused-movements-left-a-trace", || format!("compliance log {} entries, supply {s}", l.len()));
            } else if !idv_wired {
                rep.check("res", s == 0 && l.iter().all(|hc| hc.amount == 0 && hc.kind != 1), "C04/res/unwired/refused-movements-left-a-trace", || format!("supply {s}, compliance log {:?}", l.iter().map(|hc| (hc.kind, hc.amount)).collect::<Vec<_>>()));
            }
        };
        attempt(rep, "before", *shape == "compliance-only", *shape == "identity-only");
        // wire what is missing: the same calls now behave as on any token (mint of 10 succeeds)
        if *shape != "compliance-only" {
            invoke::<()>(e, &tok, "wire_compliance", args!(e, comp.clone())).unwrap();
        }
        if *shape != "identity-only" {
            // with the compliance contract named but still no identity verifier: still refused
            if *shape == "neither" {
                attempt(rep, "compliance-named", true, false);
            }
            invoke::<()>(e, &tok, "wire_identity_verifier", args!(e, idv.clone())).unwrap();
        }
        attempt(rep, "wired", true, true);
        let b: i128 = invoke(e, &tok, "balance", args!(e, u[0])).must("balance");
        rep.check("ref", b == 9, "C04/ref/unwired/token-works-once-wired", || format!("after wiring, mint 10 / transfer 1 left holder 0 with {b} (expected 9)"));
        rep.count("unwired_histories");
        rep.end_history();
    }
}

// ------------------------------------------------------------------ the library's compliance dispatcher
/// RWA token wired to a compliance contract built from `compliance::storage` with three scripted,
/// logging modules: a movement passes iff NO registered module denies it, and every module registered
/// for a state hook is notified exactly once, with the exact parties and amount.
fn real_dispatcher(cfg: &Cfg, rep: &mut Report) {
    let mut k = 0u64;
    for ep in ["transfer", "transfer_from", "mint", "burn", "forced_transfer"] {
        for deny_mask in 0u32..8 {
            for (reg_mask, variant) in [(0b111u32, 0u32), (0b101, 0), (0b011, 0), (0b000, 0), (0b111, 1), (0b111, 2), (0b101, 1), (0b011, 2), (0b111, 3)] {
                k += 1;
                let h = 40_000 + k;
                if h % cfg.nshards as u64 != cfg.shard as u64 || !cfg.runs(h) {
                    continue;
                }
                rep.begin_history(h);
                // which of the five hooks each registered module subscribes to (bit j = hook j of `hooks`):
                // variant 0 all of them; otherwise a subset drawn per module, so that the modules of one hook
                // differ from those of another (a dispatcher that reads the wrong hook's list shows)
                let mut hrng = Rng::for_history(cfg.seed, "C04", 0, h);
                let hook_mask: Vec<u32> = (0..3).map(|_| if variant == 0 { 0b11111 } else { 1 + hrng.below(31) as u32 }).collect();
                let w = World::new(100, 16);
                let e = &w.env;
                e.mock_all_auths();
                let comp = e.register(RealCompliance, ());
                let idv = e.register(MockIdentity, ());
                let tok = e.register(RwaTok, (comp.clone(), idv.clone()));
                invoke::<()>(e, &comp, "bind", args!(e, tok.clone())).unwrap();
                let mods: Vec<Address> = (0..3).map(|_| e.register(MockModule, ())).collect();
                let u = w.accounts(3);
                // open gates first: fund and approve with nothing registered
                invoke::<()>(e, &tok, "mint", args!(e, u[0], 1000i128)).expect("setup mint");
                invoke::<()>(e, &tok, "approve", args!(e, u[0], u[2], 1000i128, w.ledger() + 100)).expect("setup approve");
                let registered: Vec<usize> = (0..3).filter(|i| reg_mask >> i & 1 == 1).collect();
                // hook numbers as the modules log them: 0 transferred, 1 created, 2 destroyed, 3 can_transfer, 4 can_create
                let hooks = [ComplianceHook::Transferred, ComplianceHook::Created, ComplianceHook::Destroyed, ComplianceHook::CanTransfer, ComplianceHook::CanCreate];
                for i in &registered {
                    for (j, hk) in hooks.iter().enumerate() {
                        if hook_mask[*i] >> j & 1 == 1 {
                            invoke::<()>(e, &comp, "add_module_to", args!(e, hk.clone(), mods[*i].clone())).unwrap();
                        }
                    }
                }
                let subscribed = |i: usize, j: u32| registered.contains(&i) && hook_mask[i] >> j & 1 == 1;
                for i in 0..3 {
                    let d = deny_mask >> i & 1 == 1;
                    invoke::<()>(e, &mods[i], "set_flags", args!(e, d, d)).unwrap();
                }
                let (f, a, gated, kind, pa, pb): (&str, _, bool, u32, usize, usize) = match ep {
                    "transfer" => ("transfer", args!(e, u[0], u[1], 10i128), true, 0, 0, 1),
                    "transfer_from" => ("transfer_from", args!(e, u[2], u[0], u[1], 10i128), true, 0, 0, 1),
                    "mint" => ("mint", args!(e, u[1], 10i128), true, 1, 1, 1),
                    "burn" => ("burn", args!(e, u[0], 10i128), false, 2, 0, 0),
                    _ => ("forced_transfer", args!(e, u[0], u[1], 10i128), false, 0, 0, 1),
                };
                // the gate hook that is asked about this movement: can_create for a mint, can_transfer otherwise
                let gate_hook = if kind == 1 { 4 } else { 3 };
                let denies = (0..3).any(|i| subscribed(i, gate_hook) && deny_mask >> i & 1 == 1);
                e.mock_all_auths();
                let got: Result<Val, Fail> = invoke(e, &tok, f, a);
                rep.evaluations += 1;
                let want = !(gated && denies);
                rep.op(format!("{ep} with modules registered {registered:?} for hooks {hook_mask:?}, denying mask {deny_mask:03b} -> {}", tag(&got)));
                rep.case(format!("dispatcher/{ep}/reg={reg_mask:03b}/hooks={}/deny={deny_mask:03b}/{}", if variant == 0 { "all" } else { "subsets" }, tag(&got)));
                rep.count(&format!("dispatcher:{}", if got.is_ok() { "ok" } else { "refused" }));
                if got.is_ok() && gated {
                    rep.check("gate", !denies, &format!("C04/gate/{ep}/passed-although-a-compliance-module-denies"), || {
                        format!("{ep} succeeded; registered modules {registered:?}, deny mask {deny_mask:03b}")
                    });
                }
                rep.check("ref", got.is_ok() == want, &format!("C04/ref/dispatcher/{ep}/outcome"), || format!("{ep}: registered {registered:?} deny mask {deny_mask:03b}: expected ok={want}, got {got:?}"));
                for i in 0..3 {
                    let l: SVec<HookCall> = invoke(e, &mods[i], "log", args!(e)).unwrap();
                    let lv: Vec<(u32, usize, usize, i128)> = l.iter().map(|hc| (hc.kind, u.iter().position(|x| *x == hc.a).unwrap_or(9), u.iter().position(|x| *x == hc.b).unwrap_or(9), hc.amount)).collect();
                    let wantv: Vec<(u32, usize, usize, i128)> = if got.is_ok() && subscribed(i, kind) { vec![(kind, pa, pb, 10)] } else { vec![] };
                    rep.check("log", lv == wantv, &format!("C04/log/dispatcher/{ep}/module-notifications"), || format!("module {i} (registered: {}, hooks {:05b}): notifications {lv:?}, expected {wantv:?}", registered.contains(&i), hook_mask[i]));
                    // the questions a gated movement puts to the modules of its gate hook: about this movement
                    // (these parties in this direction, this amount) and to nobody else
                    if got.is_ok() {
                        let q: SVec<HookCall> = invoke(e, &mods[i], "questions", args!(e)).unwrap();
                        let mut qv: Vec<(u32, usize, usize, i128)> = q.iter().map(|hc| (hc.kind, u.iter().position(|x| *x == hc.a).unwrap_or(9), u.iter().position(|x| *x == hc.b).unwrap_or(9), hc.amount)).collect();
                        qv.dedup();
                        let wantq: Vec<(u32, usize, usize, i128)> = if gated && subscribed(i, gate_hook) { vec![(gate_hook, pa, pb, 10)] } else { vec![] };
                        rep.check("log", qv == wantq, &format!("C04/log/dispatcher/{ep}/module-questions"), || format!("module {i} (hooks {:05b}) was asked {qv:?}, expected {wantq:?} (kind 3 can_transfer, 4 can_create; parties as indices)", hook_mask[i]));
                    }
                }
                rep.end_history();
            }
        }
    }
}

// ------------------------------------------------------------------ random histories
#[derive(Clone, Copy, PartialEq)]
pub enum Mode {
    /// C04: all monitors
    Gates,
    /// C01: conservation, residue and event-fold monitors only, signatures under C01
    Conservation,
}

fn gen_amount(rng: &mut Rng, m: &Model, who: usize) -> i128 {
    let b = m.s.bal[who];
    let f = m.s.frozen[who];
    let free = b - f;
    let c = [0, 1, 2, 10, b, b.saturating_add(1), b - 1, free, free.saturating_add(1), free - 1, f, f.saturating_add(1), f - 1, b / 2, free / 2, 1000, -1, i128::MAX - m.s.supply, i128::MAX];
    let v = *rng.pick(&c);
    if rng.chance(1, 30) {
        *rng.pick(&crate::rng::lattice_i128())
    } else {
        v
    }
}

pub fn history(cfg: &Cfg, rep: &mut Report, h: u64, steps: usize, mode: Mode) {
    let p = if mode == Mode::Gates { "C04" } else { "C01" };
    let mut rng = Rng::for_history(cfg.seed, p, cfg.shard, h);
    rep.begin_history(h);
    let n = 4;
    let r = deploy(100 + rng.below(30) as u32, n);
    let mut m = Model {
        n,
        s: RState { bal: vec![0; n], frozen: vec![0; n], addr_frozen: vec![false; n], allow: vec![], supply: 0, paused: false },
        allow: BTreeMap::new(),
        id_fail: vec![false; n],
        deny_transfer: false,
        deny_create: false,
        recovery: BTreeMap::new(),
    };
    rep.op(format!("deploy rwa n={n} ledger={}", r.w.ledger()));
    let mut pre = r.observe();
    let mut log_len = 0usize;
    let mut fold_bal = vec![0i128; n];
    let mut fold_supply = 0i128;
    let mut nev = 0u64;
    for step in 0..steps {
        if rng.chance(1, 15) {
            let t = r.w.ledger() + if rng.chance(1, 10) { 600_000 } else { 1 + rng.below(40) as u32 };
            r.w.set_ledger(t);
            rep.op(format!("ledger -> {t}"));
            pre = r.observe();
        }
        let cur = r.w.ledger();
        let max_live = r.w.env.ledger().max_live_until_ledger();
        let a_ = rng.idx(n);
        let b_ = if rng.chance(1, 7) { a_ } else { rng.idx(n) };
        let c_ = rng.idx(n);
        let op = if step < 3 {
            Op::Mint { to: step, a: *rng.pick(&[1000i128, 77, 1 << 60]) }
        } else {
            match rng.below(100) {
                0..=9 => Op::Mint { to: a_, a: gen_amount(&mut rng, &m, a_) },
                10..=27 => Op::Transfer { from: a_, to: b_, a: gen_amount(&mut rng, &m, a_) },
                28..=40 => {
                    let keys: Vec<_> = m.allow.keys().cloned().collect();
                    let (o, s) = if !keys.is_empty() && rng.chance(3, 4) { *rng.pick(&keys) } else { (a_, c_) };
                    let al = m.allowance(o, s, cur);
                    let amt = if rng.chance(1, 2) { *rng.pick(&[al, al / 2, al.saturating_add(1), 1]) } else { gen_amount(&mut rng, &m, o) };
                    Op::TransferFrom { sp: s, from: o, to: b_, a: amt }
                }
                41..=48 => Op::Approve { owner: a_, sp: c_, a: gen_amount(&mut rng, &m, a_).max(-1), l: cur + rng.below(60) as u32 },
                49..=56 => Op::Forced { from: a_, to: b_, a: gen_amount(&mut rng, &m, a_) },
                57..=63 => Op::Burn { user: a_, a: gen_amount(&mut rng, &m, a_) },
                64..=68 => {
                    let keys: Vec<_> = m.recovery.iter().map(|(k, v)| (*k, *v)).collect();
                    let (o, nw) = if !keys.is_empty() && rng.chance(3, 4) { *rng.pick(&keys) } else { (a_, b_) };
                    Op::Recover { old: o, new: nw }
                }
                69..=76 => Op::FreezePartial { user: a_, a: gen_amount(&mut rng, &m, a_) },
                77..=81 => Op::UnfreezePartial { user: a_, a: gen_amount(&mut rng, &m, a_) },
                82..=86 => Op::SetFrozen { user: a_, f: rng.chance(1, 2) },
                87..=88 => Op::Pause,
                89..=91 => Op::Unpause,
                92..=94 => Op::IdFail { user: a_, f: rng.chance(1, 2) },
                95..=96 => Op::Deny { t: rng.chance(1, 3), c: rng.chance(1, 3) },
                _ => Op::SetRecovery { old: a_, new: if rng.chance(1, 5) { None } else { Some(b_) } },
            }
        };
        let want = m.predict(&op, cur, max_live);
        let free_before = m.s.bal.iter().zip(&m.s.frozen).map(|(b, f)| b - f).collect::<Vec<_>>();
        let _: Result<(), Fail> = invoke(&r.w.env, &r.comp, "clear_questions", args!(&r.w.env));
        let got = exec(&r, &op);
        let evs = obs::events(&r.w.env);
        rep.evaluations += 1;
        rep.op(format!("#{step} @{cur} {op:?} -> {}", tag(&got)));
        if let Err(Fail::Budget) = got {
            rep.count("budget_errors");
        }
        rep.count(&format!("{}:{}", op.name(), tag(&got)));
        let site = format!("rwa/{}", op.name());
        let post = r.observe();
        rep.evaluations += (3 * n + n * n + 2) as u64;
        let log = r.log();
        if mode == Mode::Gates {
            let gv = match &op {
                Op::Transfer { from, to, a } | Op::TransferFrom { from, to, a, .. } => format!(
                    "p{}f{}t{}a{}i{}j{}c{}",
                    m.s.paused as u8, m.s.addr_frozen[*from] as u8, m.s.addr_frozen[*to] as u8, (free_before[*from] < *a) as u8,
                    m.id_fail[*from] as u8, m.id_fail[*to] as u8, m.deny_transfer as u8
                ),
                Op::Forced { from, a, .. } | Op::Burn { user: from, a } => {
                    format!("frozen={}", if m.s.frozen[*from] == 0 { "none" } else if free_before[*from] >= *a { "free-suffices" } else { "must-unfreeze" })
                }
                _ => "-".into(),
            };
            rep.case(format!("hist/{}/{gv}/{}", op.name(), tag(&got)));
            // gates: a holder-initiated movement that succeeded had every gate open
            if got.is_ok() {
                if let Op::Transfer { from, to, a } | Op::TransferFrom { from, to, a, .. } = &op {
                    rep.check("gate", m.gates_open(*from, *to, *a), &format!("C04/gate/{}/passed-with-closed-gate", op.name()), || {
                        format!("{op:?} succeeded at ledger {cur}; model: paused={} frozen={:?} free={:?} id_fail={:?} deny_transfer={}", m.s.paused, m.s.addr_frozen, free_before, m.id_fail, m.deny_transfer)
                    });
                }
                if let Op::Mint { to, .. } = &op {
                    rep.check("gate", !m.id_fail[*to] && !m.deny_create, "C04/gate/mint/passed-with-closed-gate", || {
                        format!("{op:?} succeeded; id_fail={:?} deny_create={}", m.id_fail, m.deny_create)
                    });
                }
                if let Op::Recover { old, new } = &op {
                    rep.check("gate", m.recovery.get(old) == Some(new), "C04/gate/recover_balance/not-the-registered-target", || {
                        format!("{op:?} succeeded; registered targets {:?}", m.recovery)
                    });
                }
            }
            rep.check("ref", got.is_ok() == want, &format!("C04/ref/{site}/outcome"), || {
                format!("{op:?} at ledger {cur}: model expects ok={want}, contract answered {got:?}; model {:?} id_fail={:?} deny=({},{}) recovery={:?}", m.s, m.id_fail, m.deny_transfer, m.deny_create, m.recovery)
            });
        } else {
            rep.case(format!("rwa/{}/{}", op.name(), tag(&got)));
        }
        let mut expected_log: Vec<(u32, usize, usize, i128)> = vec![];
        if got.is_ok() {
            match &op {
                Op::IdFail { user, f } => m.id_fail[*user] = *f,
                Op::Deny { t, c } => {
                    m.deny_transfer = *t;
                    m.deny_create = *c;
                }
                Op::SetRecovery { old, new } => {
                    match new {
                        Some(x) => m.recovery.insert(*old, *x),
                        None => m.recovery.remove(old),
                    };
                }
                _ => {
                    if want {
                        expected_log = m.apply(&op);
                    }
                }
            }
        }
        match &got {
            Err(_) => {
                rep.check("res", post == pre && log.len() == log_len, &format!("{p}/res/{site}/residue-after-failed-call"), || {
                    format!("{op:?} failed with {got:?} but state moved {pre:?} -> {post:?}, compliance log {} -> {}", log_len, log.len())
                });
            }
            Ok(_) => {
                if mode == Mode::Gates && want {
                    let ms = m.state(cur);
                    rep.check("ref", post == ms, &format!("C04/ref/{site}/state"), || format!("{op:?}: observed {post:?}, model {ms:?}"));
                    // LOG: exactly-once notification with the exact parties and amount
                    let new_entries = &log[log_len.min(log.len())..];
                    rep.check("log", new_entries == expected_log.as_slice(), &format!("C04/log/{site}/compliance-notification"), || {
                        format!("{op:?}: compliance contract received {new_entries:?}, expected {expected_log:?}")
                    });
                    // the approval that was asked for concerned exactly this movement
                    let qs: SVec<HookCall> = invoke(&r.w.env, &r.comp, "questions", args!(&r.w.env)).unwrap();
                    let asked: Vec<(u32, usize, usize, i128, bool)> = qs.iter().map(|q| (q.kind, r.idx(&q.a), r.idx(&q.b), q.amount, q.token == r.tok)).collect();
                    let want_q: Option<(u32, usize, usize, i128, bool)> = match &op {
                        Op::Transfer { from, to, a } | Op::TransferFrom { from, to, a, .. } => Some((3, *from, *to, *a, true)),
                        Op::Mint { to, a } => Some((4, *to, *to, *a, true)),
                        _ => None,
                    };
                    if let Some(wq) = want_q {
                        rep.check("log", !asked.is_empty() && asked.iter().all(|q| *q == wq), &format!("C04/log/{site}/compliance-asked-about-another-movement"), || {
                            format!("{op:?} succeeded; the compliance contract was asked (kind 3 can_transfer / 4 can_create, from, to, amount, right token) {asked:?}, expected only {wq:?}")
                        });
                    }
                }
                // supply delta (C01's statement)
                if mode == Mode::Conservation {
                    let d = post.supply - pre.supply;
                    let wd = match &op {
                        Op::Mint { a, .. } => *a,
                        Op::Burn { a, .. } => -*a,
                        _ => 0,
                    };
                    rep.check("inv", d == wd, &format!("C01/inv/{site}/supply-delta"), || format!("{op:?}: supply moved by {d}, expected {wd}"));
                }
            }
        }
        // one defect, one signature: after any disagreement continue from the observed state
        if mode == Mode::Gates && (got.is_ok() != want || (got.is_ok() && post != m.state(cur))) {
            let keep = m.s.allow.clone();
            m.s = post.clone();
            m.s.allow = keep;
            for ((o, sp), v) in m.allow.iter_mut() {
                if v.1 >= cur {
                    v.0 = post.allow[o * n + sp];
                }
            }
            rep.count("model_resynchronised");
        }
        log_len = log.len();
        // event fold (mint / burn / transfer of the RWA token)
        for ev in evs.iter().filter(|x| x.contract == r.tok) {
            let amt = ev.i128("amount");
            let p0 = ev.addr(&r.w.env, 0).map(|a| r.idx(&a));
            let p1 = ev.addr(&r.w.env, 1).map(|a| r.idx(&a));
            match (ev.name.as_str(), p0, p1, amt) {
                ("mint", Some(t), _, Some(a)) if t < n => {
                    fold_bal[t] += a;
                    fold_supply += a;
                    nev += 1;
                }
                ("burn", Some(f), _, Some(a)) if f < n => {
                    fold_bal[f] -= a;
                    fold_supply -= a;
                    nev += 1;
                }
                ("transfer", Some(f), Some(t), Some(a)) if f < n && t < n => {
                    fold_bal[f] -= a;
                    fold_bal[t] += a;
                    nev += 1;
                }
                _ => {}
            }
        }
        if mode == Mode::Conservation || step % 8 == 7 {
            rep.check("log", fold_bal == post.bal && fold_supply == post.supply, &format!("{p}/log/rwa/replay-from-genesis"), || {
                format!("after {op:?}: fold of {nev} events gives {fold_bal:?}/{fold_supply}; contract says {:?}/{}", post.bal, post.supply)
            });
        }
        // INV on the live state
        let sum: i128 = post.bal.iter().sum();
        rep.check("inv", sum == post.supply && post.bal.iter().all(|b| *b >= 0), &format!("{p}/inv/{site}/sum-of-balances"), || {
            format!("after {op:?}: balances {:?}, supply {}", post.bal, post.supply)
        });
        if mode == Mode::Gates {
            for i in 0..n {
                rep.check("inv", post.frozen[i] >= 0 && post.frozen[i] <= post.bal[i], &format!("C04/inv/{site}/frozen-outside-0..balance"), || {
                    format!("after {op:?}: account {i} frozen {} balance {}", post.frozen[i], post.bal[i])
                });
            }
        }
        pre = post;
    }
    rep.count_n("rwa_events_folded", nev);
    rep.end_history();
}

pub fn run(cfg: &Cfg, rep: &mut Report) {
    rep.rule = "(a) exhaustive sweep (split over shards) of transfer and transfer_from under all 2^7 combinations of {paused, from frozen, to frozen, amount > free, id(from) fails, id(to) fails, compliance denies} and mint under 2^2, each in 3 variants (partial amount, self-transfer, whole balance) on a fresh token with sufficient balance and allowance; (a') the library's own compliance dispatcher with 3 scripted logging modules: every entry point x every subset of registered modules {all, two, none} x every subset of denying modules; (b) seeded histories of mint/transfer/transfer_from/approve/forced_transfer/burn/recover_balance/freeze/unfreeze/set_address_frozen/pause/unpause with gate toggles in between, amounts around balance, free and frozen; (c) the token wired to the library's real identity verifier over real registries, identity contracts and claim issuers (C15's history engine): after every registry / key / claim / time step, mints to and transfers between 4 accounts must pass exactly when the iff-oracle of C15 says the parties are verified. Distinct case = (entry point, 7-bit gate vector, outcome) for (a) and (op, gate vector or freeze class, outcome) for (b).".into();
    gate_sweep(cfg, rep);
    real_dispatcher(cfg, rep);
    unwired(cfg, rep);
    let nh = cfg.pick(60u64, 1200);
    let steps = cfg.pick(160usize, 300);
    for k in 0..nh {
        let h = 10_000 + k;
        if cfg.runs(h) {
            history(cfg, rep, h, steps, Mode::Gates);
        }
    }
    // (c) the identity gate end to end: the token wired to the library's real identity verifier
    // over the real registries, identities and issuers (C15's engine; its own monitors muted)
    rep.mute_prefix = Some("C15/".into());
    for k in 0..cfg.pick(6u64, 40) {
        let h = 500_000 + k;
        if cfg.runs(h) {
            crate::props::c15::history(cfg, rep, h, cfg.pick(100, 200), true);
        }
    }
    rep.mute_prefix = None;
    rep.floor_on("transfer_from_ok", 20, &["transfer_from:ok"]);
    rep.floor_on("recover_ok", 5, &["recover_balance:ok"]);
    rep.floor_on("real_identity_transfers_ok", 20, &["e2e_transfer_ok"]);
    rep.floor_on("real_identity_transfers_refused", 20, &["e2e_transfer_refused"]);
}
