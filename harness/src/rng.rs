//! Deterministic SplitMix64 stream; every random choice of a workload comes from here.

#[derive(Clone, Debug)]
pub struct Rng(pub u64);

fn mix(mut z: u64) -> u64 {
    z = (z ^ (z >> 30)).wrapping_mul(0xBF58476D1CE4E5B9);
    z = (z ^ (z >> 27)).wrapping_mul(0x94D049BB133111EB);
    z ^ (z >> 31)
}

impl Rng {
    /// Stream for (seed, property, shard, history index).
    pub fn for_history(seed: u64, prop: &str, shard: u32, hist: u64) -> Rng {
        let mut s = mix(seed ^ 0x9E3779B97F4A7C15);
        for b in prop.bytes() {
            s = mix(s ^ b as u64);
        }
        s = mix(s ^ ((shard as u64) << 32) ^ 0xA5A5);
        s = mix(s ^ hist.wrapping_mul(0xD6E8FEB86659FD93));
        Rng(s)
    }
    pub fn next(&mut self) -> u64 {
        self.0 = self.0.wrapping_add(0x9E3779B97F4A7C15);
        mix(self.0)
    }
    pub fn below(&mut self, n: u64) -> u64 {
        if n == 0 {
            0
        } else {
            self.next() % n
        }
    }
    pub fn idx(&mut self, n: usize) -> usize {
        self.below(n as u64) as usize
    }
    pub fn range(&mut self, lo: i64, hi: i64) -> i64 {
        lo + self.below((hi - lo + 1) as u64) as i64
    }
    pub fn chance(&mut self, num: u64, den: u64) -> bool {
        self.below(den) < num
    }
    pub fn pick<'a, T>(&mut self, v: &'a [T]) -> &'a T {
        &v[self.idx(v.len())]
    }
    pub fn u128(&mut self) -> u128 {
        ((self.next() as u128) << 64) | self.next() as u128
    }
    pub fn i128_bits(&mut self, bits: u32) -> i128 {
        // random non-negative value with exactly `bits` significant bits (bits in 0..=127)
        if bits == 0 {
            return 0;
        }
        let v = self.u128() & ((1u128 << bits) - 1) | (1u128 << (bits - 1));
        v as i128
    }
    pub fn bytes<const N: usize>(&mut self) -> [u8; N] {
        let mut out = [0u8; N];
        for c in out.chunks_mut(8) {
            let v = self.next().to_le_bytes();
            c.copy_from_slice(&v[..c.len()]);
        }
        out
    }
    pub fn shuffle<T>(&mut self, v: &mut [T]) {
        for i in (1..v.len()).rev() {
            let j = self.idx(i + 1);
            v.swap(i, j);
        }
    }
}

/// Boundary lattice for i128 amounts (DESIGN.md §4).
pub fn lattice_i128() -> Vec<i128> {
    let mut v = vec![
        i128::MIN,
        i128::MIN + 1,
        -(1i128 << 64),
        -(1i128 << 63),
        -1_000_000_000_000_000_000,
        -2,
        -1,
        0,
        1,
        2,
        1_000_000_000_000_000_000,
        1i128 << 63,
        1i128 << 64,
        i128::MAX - 1,
        i128::MAX,
    ];
    v.dedup();
    v
}
