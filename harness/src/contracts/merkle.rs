//! Merkle verifier entry points (so that failures are classified) and a distributor wrapper for the
//! Keccak / indexed variants (the airdrop example covers Sha256 / sorted-pair).
use soroban_sdk::{contract, contractimpl, contracttype, Address, BytesN, Env, Vec};
use stellar_contract_utils::crypto::{keccak::Keccak256, merkle::Verifier, sha256::Sha256};
use stellar_contract_utils::merkle_distributor::{IndexableLeaf, MerkleDistributor};

#[contract]
pub struct MerkleC;

#[contractimpl]
impl MerkleC {
    pub fn verify_sha(e: &Env, proof: Vec<BytesN<32>>, root: BytesN<32>, leaf: BytesN<32>) -> bool {
        Verifier::<Sha256>::verify(e, proof, root, leaf)
    }
    pub fn verify_keccak(e: &Env, proof: Vec<BytesN<32>>, root: BytesN<32>, leaf: BytesN<32>) -> bool {
        Verifier::<Keccak256>::verify(e, proof, root, leaf)
    }
    pub fn verify_idx_sha(e: &Env, proof: Vec<BytesN<32>>, root: BytesN<32>, leaf: BytesN<32>, index: u32) -> bool {
        Verifier::<Sha256>::verify_with_index(e, proof, root, leaf, index)
    }
    pub fn verify_idx_keccak(e: &Env, proof: Vec<BytesN<32>>, root: BytesN<32>, leaf: BytesN<32>, index: u32) -> bool {
        Verifier::<Keccak256>::verify_with_index(e, proof, root, leaf, index)
    }
}

#[contracttype]
#[derive(Clone)]
pub struct Receiver {
    pub index: u32,
    pub address: Address,
    pub amount: i128,
}

impl IndexableLeaf for Receiver {
    fn index(&self) -> u32 {
        self.index
    }
}

type DK = MerkleDistributor<Keccak256>;
type DS = MerkleDistributor<Sha256>;

/// variant 0: Keccak sorted-pair, 1: Keccak indexed, 2: Sha256 indexed
#[contract]
pub struct DistC;

#[contractimpl]
impl DistC {
    pub fn __constructor(e: &Env, variant: u32) {
        e.storage().instance().set(&0u32, &variant);
    }
    pub fn set_root(e: &Env, root: BytesN<32>) {
        match e.storage().instance().get::<_, u32>(&0u32).unwrap() {
            2 => DS::set_root(e, root),
            _ => DK::set_root(e, root),
        }
    }
    pub fn is_claimed(e: &Env, index: u32) -> bool {
        match e.storage().instance().get::<_, u32>(&0u32).unwrap() {
            2 => DS::is_claimed(e, index),
            _ => DK::is_claimed(e, index),
        }
    }
    pub fn claim(e: &Env, index: u32, receiver: Address, amount: i128, proof: Vec<BytesN<32>>) {
        let data = Receiver { index, address: receiver, amount };
        match e.storage().instance().get::<_, u32>(&0u32).unwrap() {
            0 => DK::verify_and_set_claimed(e, data, proof),
            1 => DK::verify_with_index_and_set_claimed(e, data, proof),
            _ => DS::verify_with_index_and_set_claimed(e, data, proof),
        }
    }
}
