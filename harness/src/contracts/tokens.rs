//! Fungible-token wrappers: the library's `ContractType` implementations wired exactly as the
//! examples wire them, with an un-gated `mint` so that histories can create supply.
use soroban_sdk::{contract, contractimpl, Address, Env, MuxedAddress, String};
use stellar_governance::votes::Votes;
use stellar_tokens::fungible::{
    allowlist::AllowList, blocklist::BlockList, burnable::FungibleBurnable, votes::FungibleVotes, Base, FungibleToken,
};

fn meta(e: &Env) {
    Base::set_metadata(e, 7, String::from_str(e, "Tok"), String::from_str(e, "TOK"));
}

// ---------------- Base + burnable ----------------
#[contract]
pub struct TokBase;

#[contractimpl]
impl TokBase {
    pub fn __constructor(e: &Env) {
        meta(e);
    }
    pub fn mint(e: &Env, to: Address, amount: i128) {
        Base::mint(e, &to, amount);
    }
    /// the library's low-level balance / supply primitive (public, un-gated, no event)
    pub fn raw_update(e: &Env, from: Option<Address>, to: Option<Address>, amount: i128) {
        Base::update(e, from.as_ref(), to.as_ref(), amount);
    }
}

#[contractimpl(contracttrait)]
impl FungibleToken for TokBase {
    type ContractType = Base;
}

#[contractimpl(contracttrait)]
impl FungibleBurnable for TokBase {}

// ---------------- AllowList, all five overridden entry points ----------------
#[contract]
pub struct TokAllow;

#[contractimpl]
impl TokAllow {
    pub fn __constructor(e: &Env) {
        meta(e);
    }
    pub fn mint(e: &Env, to: Address, amount: i128) {
        Base::mint(e, &to, amount);
    }
    pub fn allowed(e: &Env, account: Address) -> bool {
        AllowList::allowed(e, &account)
    }
    pub fn allow_user(e: &Env, user: Address) {
        AllowList::allow_user(e, &user)
    }
    pub fn disallow_user(e: &Env, user: Address) {
        AllowList::disallow_user(e, &user)
    }
}

#[contractimpl(contracttrait)]
impl FungibleToken for TokAllow {
    type ContractType = AllowList;
}

#[contractimpl]
impl FungibleBurnable for TokAllow {
    fn burn(e: &Env, from: Address, amount: i128) {
        AllowList::burn(e, &from, amount)
    }
    fn burn_from(e: &Env, spender: Address, from: Address, amount: i128) {
        AllowList::burn_from(e, &spender, &from, amount)
    }
}

// ---------------- BlockList ----------------
#[contract]
pub struct TokBlock;

#[contractimpl]
impl TokBlock {
    pub fn __constructor(e: &Env) {
        meta(e);
    }
    pub fn mint(e: &Env, to: Address, amount: i128) {
        Base::mint(e, &to, amount);
    }
    pub fn blocked(e: &Env, account: Address) -> bool {
        BlockList::blocked(e, &account)
    }
    pub fn block_user(e: &Env, user: Address) {
        BlockList::block_user(e, &user)
    }
    pub fn unblock_user(e: &Env, user: Address) {
        BlockList::unblock_user(e, &user)
    }
}

#[contractimpl(contracttrait)]
impl FungibleToken for TokBlock {
    type ContractType = BlockList;
}

#[contractimpl]
impl FungibleBurnable for TokBlock {
    fn burn(e: &Env, from: Address, amount: i128) {
        BlockList::burn(e, &from, amount)
    }
    fn burn_from(e: &Env, spender: Address, from: Address, amount: i128) {
        BlockList::burn_from(e, &spender, &from, amount)
    }
}

// ---------------- Votes ----------------
#[contract]
pub struct TokVotes;

#[contractimpl]
impl TokVotes {
    pub fn __constructor(e: &Env) {
        meta(e);
    }
    pub fn mint(e: &Env, to: Address, amount: i128) {
        FungibleVotes::mint(e, &to, amount);
    }
}

#[contractimpl(contracttrait)]
impl FungibleToken for TokVotes {
    type ContractType = FungibleVotes;
}

#[contractimpl]
impl FungibleBurnable for TokVotes {
    fn burn(e: &Env, from: Address, amount: i128) {
        FungibleVotes::burn(e, &from, amount)
    }
    fn burn_from(e: &Env, spender: Address, from: Address, amount: i128) {
        FungibleVotes::burn_from(e, &spender, &from, amount)
    }
}

#[contractimpl(contracttrait)]
impl Votes for TokVotes {}

// ---------------- a deliberately lax token ----------------
// Not from the library: a minimal SEP-41-shaped ledger that performs NO sign or expiration checks of
// its own, so that a forwarder's own validation is what stands between a caller and a negative fee.
use soroban_sdk::contracttype;

#[contracttype]
pub enum LaxKey {
    Bal(Address),
    Allow(Address, Address),
}

#[contract]
pub struct LaxToken;

#[contractimpl]
impl LaxToken {
    pub fn mint(e: &Env, to: Address, amount: i128) {
        let b: i128 = e.storage().persistent().get(&LaxKey::Bal(to.clone())).unwrap_or(0);
        e.storage().persistent().set(&LaxKey::Bal(to), &(b + amount));
    }
    pub fn balance(e: &Env, id: Address) -> i128 {
        e.storage().persistent().get(&LaxKey::Bal(id)).unwrap_or(0)
    }
    pub fn allowance(e: &Env, from: Address, spender: Address) -> i128 {
        e.storage().persistent().get(&LaxKey::Allow(from, spender)).unwrap_or(0)
    }
    pub fn approve(e: &Env, from: Address, spender: Address, amount: i128, _expiration_ledger: u32) {
        from.require_auth();
        e.storage().persistent().set(&LaxKey::Allow(from, spender), &amount);
    }
    pub fn transfer(e: &Env, from: Address, to: Address, amount: i128) {
        from.require_auth();
        Self::mv(e, from, to, amount);
    }
    pub fn transfer_from(e: &Env, spender: Address, from: Address, to: Address, amount: i128) {
        spender.require_auth();
        let k = LaxKey::Allow(from.clone(), spender);
        let a: i128 = e.storage().persistent().get(&k).unwrap_or(0);
        if a < amount {
            panic!("allowance");
        }
        e.storage().persistent().set(&k, &(a - amount));
        Self::mv(e, from, to, amount);
    }
    fn mv(e: &Env, from: Address, to: Address, amount: i128) {
        let fb: i128 = e.storage().persistent().get(&LaxKey::Bal(from.clone())).unwrap_or(0);
        if amount > 0 && fb < amount {
            panic!("balance");
        }
        e.storage().persistent().set(&LaxKey::Bal(from), &(fb - amount));
        let tb: i128 = e.storage().persistent().get(&LaxKey::Bal(to.clone())).unwrap_or(0);
        e.storage().persistent().set(&LaxKey::Bal(to), &(tb + amount));
    }
}

// ---------------- capped token whose cap is set later (or never) ----------------
#[contract]
pub struct TokCapLate;

#[contractimpl]
impl TokCapLate {
    pub fn mint(e: &Env, to: Address, amount: i128) {
        stellar_tokens::fungible::capped::check_cap(e, amount);
        Base::mint(e, &to, amount);
    }
    pub fn set_cap(e: &Env, cap: i128) {
        stellar_tokens::fungible::capped::set_cap(e, cap);
    }
    pub fn query_cap(e: &Env) -> i128 {
        stellar_tokens::fungible::capped::query_cap(e)
    }
}

#[contractimpl(contracttrait)]
impl FungibleToken for TokCapLate {
    type ContractType = Base;
}

// ---------------- vault whose configuration entry points stay reachable ----------------
#[contract]
pub struct VaultLate;

#[contractimpl]
impl VaultLate {
    pub fn set_asset(e: &Env, asset: Address) {
        stellar_tokens::vault::Vault::set_asset(e, asset)
    }
    pub fn set_offset(e: &Env, offset: u32) {
        stellar_tokens::vault::Vault::set_decimals_offset(e, offset)
    }
    pub fn offset(e: &Env) -> u32 {
        stellar_tokens::vault::Vault::get_decimals_offset(e)
    }
    pub fn asset(e: &Env) -> Address {
        stellar_tokens::vault::Vault::query_asset(e)
    }
}
