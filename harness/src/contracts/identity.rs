//! The RWA identity stack wired from the library's own functions: claim-topics-and-issuers registry,
//! identity registry storage, identity (claims holder), identity verifier, and a claim issuer
//! assembled from the helpers exactly as the module documentation shows (three schemes).
use soroban_sdk::{contract, contractimpl, symbol_short, Address, Bytes, BytesN, Env, IntoVal, Map, String, Val, Vec};
use stellar_tokens::rwa::claim_issuer::{
    allow_key, get_current_nonce_for, get_keys_for_topic, get_registries, invalidate_claim_signatures, is_claim_expired,
    is_claim_revoked, is_key_allowed_for_registry, is_key_allowed_for_topic, remove_key, set_claim_revoked, Ed25519Verifier,
    Secp256k1Verifier, Secp256r1Verifier, SignatureVerifier, SigningKey,
};
use stellar_tokens::rwa::claim_topics_and_issuers::storage as cti;
use stellar_tokens::rwa::identity_claims::{add_claim, get_claim, get_claim_ids_by_topic, remove_claim, Claim};
use stellar_tokens::rwa::identity_registry_storage::{self as irs, CountryData, IdentityProfile, IdentityType};
use stellar_tokens::rwa::identity_verifier::storage as idv;

// ---------------- claim topics and issuers ----------------
#[contract]
pub struct CtiC;

#[contractimpl]
impl CtiC {
    pub fn add_claim_topic(e: &Env, t: u32) {
        cti::add_claim_topic(e, t)
    }
    pub fn remove_claim_topic(e: &Env, t: u32) {
        cti::remove_claim_topic(e, t)
    }
    pub fn add_trusted_issuer(e: &Env, issuer: Address, topics: Vec<u32>) {
        cti::add_trusted_issuer(e, &issuer, &topics)
    }
    pub fn remove_trusted_issuer(e: &Env, issuer: Address) {
        cti::remove_trusted_issuer(e, &issuer)
    }
    pub fn update_issuer_claim_topics(e: &Env, issuer: Address, topics: Vec<u32>) {
        cti::update_issuer_claim_topics(e, &issuer, &topics)
    }
    pub fn get_claim_topics(e: &Env) -> Vec<u32> {
        cti::get_claim_topics(e)
    }
    pub fn get_trusted_issuers(e: &Env) -> Vec<Address> {
        cti::get_trusted_issuers(e)
    }
    pub fn get_claim_topic_issuers(e: &Env, t: u32) -> Vec<Address> {
        cti::get_claim_topic_issuers(e, t)
    }
    pub fn get_trusted_issuer_claim_topics(e: &Env, issuer: Address) -> Vec<u32> {
        cti::get_trusted_issuer_claim_topics(e, &issuer)
    }
    pub fn get_claim_topics_and_issuers(e: &Env) -> Map<u32, Vec<Address>> {
        cti::get_claim_topics_and_issuers(e)
    }
    pub fn is_trusted_issuer(e: &Env, issuer: Address) -> bool {
        cti::is_trusted_issuer(e, &issuer)
    }
    pub fn has_claim_topic(e: &Env, issuer: Address, claim_topic: u32) -> bool {
        cti::has_claim_topic(e, &issuer, claim_topic)
    }
}

// ---------------- identity registry storage ----------------
#[contract]
pub struct IrsC;

#[contractimpl]
impl IrsC {
    pub fn add_identity(e: &Env, account: Address, identity: Address, identity_type: IdentityType, countries: Vec<CountryData>) {
        irs::add_identity(e, &account, &identity, identity_type, &countries)
    }
    pub fn modify_identity(e: &Env, account: Address, identity: Address) {
        irs::modify_identity(e, &account, &identity)
    }
    pub fn remove_identity(e: &Env, account: Address) {
        irs::remove_identity(e, &account)
    }
    pub fn recover_identity(e: &Env, old: Address, new: Address) {
        irs::recover_identity(e, &old, &new)
    }
    pub fn add_country_data_entries(e: &Env, account: Address, list: Vec<CountryData>) {
        irs::add_country_data_entries(e, &account, &list)
    }
    pub fn modify_country_data(e: &Env, account: Address, index: u32, data: CountryData) {
        irs::modify_country_data(e, &account, index, &data)
    }
    pub fn delete_country_data(e: &Env, account: Address, index: u32) {
        irs::delete_country_data(e, &account, index)
    }
    pub fn stored_identity(e: &Env, account: Address) -> Address {
        irs::stored_identity(e, &account)
    }
    pub fn get_identity_profile(e: &Env, account: Address) -> IdentityProfile {
        irs::get_identity_profile(e, &account)
    }
    pub fn get_country_data(e: &Env, account: Address, index: u32) -> CountryData {
        irs::get_country_data(e, &account, index)
    }
    pub fn get_country_data_entries(e: &Env, account: Address) -> Vec<CountryData> {
        irs::get_country_data_entries(e, &account)
    }
    pub fn get_recovered_to(e: &Env, old: Address) -> Option<Address> {
        irs::get_recovered_to(e, &old)
    }
}

// ---------------- identity (claims holder) ----------------
#[contract]
pub struct IdentityC;

#[contractimpl]
impl IdentityC {
    pub fn add_claim(e: &Env, topic: u32, scheme: u32, issuer: Address, signature: Bytes, data: Bytes, uri: String) -> BytesN<32> {
        add_claim(e, topic, scheme, &issuer, &signature, &data, &uri)
    }
    pub fn get_claim(e: &Env, claim_id: BytesN<32>) -> Claim {
        get_claim(e, &claim_id)
    }
    pub fn get_claim_ids_by_topic(e: &Env, topic: u32) -> Vec<BytesN<32>> {
        get_claim_ids_by_topic(e, topic)
    }
    pub fn remove_claim(e: &Env, claim_id: BytesN<32>) {
        remove_claim(e, &claim_id)
    }
}

// ---------------- identity verifier ----------------
#[contract]
pub struct VerifierC;

#[contractimpl]
impl VerifierC {
    /// either registry may be left out (a verifier that was not wired up)
    pub fn __constructor(e: &Env, cti: Option<Address>, irs: Option<Address>) {
        if let Some(c) = cti {
            idv::set_claim_topics_and_issuers(e, &c);
        }
        if let Some(i) = irs {
            idv::set_identity_registry_storage(e, &i);
        }
    }
    pub fn verify_identity(e: &Env, account: Address) {
        idv::verify_identity(e, &account)
    }
    pub fn recovery_target(e: &Env, old: Address) -> Option<Address> {
        idv::recovery_target(e, &old)
    }
}

// ---------------- claim issuer from the helpers ----------------
pub const ED25519: u32 = 101;
pub const SECP256R1: u32 = 102;
pub const SECP256K1: u32 = 103;

#[contract]
pub struct IssuerC;

#[contractimpl]
impl IssuerC {
    pub fn allow_key(e: &Env, public_key: Bytes, registry: Address, scheme: u32, claim_topic: u32) {
        allow_key(e, &public_key, &registry, scheme, claim_topic)
    }
    pub fn remove_key(e: &Env, public_key: Bytes, registry: Address, scheme: u32, claim_topic: u32) {
        remove_key(e, &public_key, &registry, scheme, claim_topic)
    }
    pub fn invalidate(e: &Env, identity: Address, claim_topic: u32) {
        invalidate_claim_signatures(e, &identity, claim_topic)
    }
    pub fn set_revoked(e: &Env, identity: Address, claim_topic: u32, claim_data: Bytes, revoked: bool) {
        set_claim_revoked(e, &identity, claim_topic, &claim_data, revoked)
    }
    pub fn nonce(e: &Env, identity: Address, claim_topic: u32) -> u32 {
        get_current_nonce_for(e, &identity, claim_topic)
    }
    pub fn keys_for_topic(e: &Env, claim_topic: u32) -> Vec<SigningKey> {
        get_keys_for_topic(e, claim_topic)
    }
    pub fn registries(e: &Env, key: SigningKey) -> Vec<Address> {
        get_registries(e, &key)
    }
    pub fn key_allowed_for_topic(e: &Env, public_key: Bytes, scheme: u32, claim_topic: u32) -> bool {
        is_key_allowed_for_topic(e, &public_key, scheme, claim_topic)
    }
    pub fn key_allowed_for_registry(e: &Env, public_key: Bytes, scheme: u32, registry: Address) -> bool {
        is_key_allowed_for_registry(e, &public_key, scheme, &registry)
    }
    /// Panics unless the claim is valid (the documented contract of `ClaimIssuer::is_claim_valid`).
    pub fn is_claim_valid(e: &Env, identity: Address, claim_topic: u32, scheme: u32, sig_data: Bytes, claim_data: Bytes) {
        fn check<V: SignatureVerifier>(e: &Env, pk: Bytes, identity: &Address, claim_topic: u32, scheme: u32, sd: &V::SignatureData, claim_data: &Bytes) {
            if !is_key_allowed_for_topic(e, &pk, scheme, claim_topic) {
                panic!("key not allowed for topic");
            }
            if is_claim_expired(e, claim_data) {
                panic!("claim expired");
            }
            if is_claim_revoked(e, identity, claim_topic, claim_data) {
                panic!("claim revoked");
            }
            let message = V::build_message(e, identity, claim_topic, claim_data);
            V::verify(e, &message, sd);
        }
        match scheme {
            ED25519 => {
                let sd = Ed25519Verifier::extract_signature_data(e, &sig_data);
                check::<Ed25519Verifier>(e, sd.public_key.clone().into(), &identity, claim_topic, scheme, &sd, &claim_data)
            }
            SECP256R1 => {
                let sd = Secp256r1Verifier::extract_signature_data(e, &sig_data);
                check::<Secp256r1Verifier>(e, sd.public_key.clone().into(), &identity, claim_topic, scheme, &sd, &claim_data)
            }
            SECP256K1 => {
                let sd = Secp256k1Verifier::extract_signature_data(e, &sig_data);
                check::<Secp256k1Verifier>(e, sd.public_key.clone().into(), &identity, claim_topic, scheme, &sd, &claim_data)
            }
            _ => panic!("unknown scheme"),
        }
    }
}

// ---------------- a scripted issuer that is NOT built from the helpers ----------------
/// Answers `is_claim_valid` as told: 0 = confirms (returns unit, as the interface says), 1 = rejects
/// by failing, 2 = rejects by *returning* `false` (a normal return of the wrong shape - an issuer
/// written in the bool style of the module documentation's usage example).
#[contract]
pub struct ScriptIssuer;

#[contractimpl]
impl ScriptIssuer {
    pub fn set_mode(e: &Env, mode: u32) {
        e.storage().instance().set(&symbol_short!("MODE"), &mode);
    }
    pub fn is_claim_valid(e: &Env, _identity: Address, _claim_topic: u32, _scheme: u32, _sig_data: Bytes, _claim_data: Bytes) -> Val {
        match e.storage().instance().get::<_, u32>(&symbol_short!("MODE")).unwrap_or(0) {
            0 => ().into_val(e),
            1 => panic!("claim rejected"),
            _ => false.into_val(e),
        }
    }
}

// ---------------- an identity contract under its holder's control: it answers whatever suits it ----------------
/// Whatever claim id it is asked about, it says it holds it, and serves the one record it was given.
#[contract]
pub struct LyingIdentity;

#[contractimpl]
impl LyingIdentity {
    pub fn set(e: &Env, ids: Vec<BytesN<32>>, record: Claim) {
        e.storage().instance().set(&symbol_short!("ids"), &ids);
        e.storage().instance().set(&symbol_short!("rec"), &record);
    }
    pub fn get_claim_ids_by_topic(e: &Env, _topic: u32) -> Vec<BytesN<32>> {
        e.storage().instance().get(&symbol_short!("ids")).unwrap_or(Vec::new(e))
    }
    pub fn get_claim(e: &Env, _claim_id: BytesN<32>) -> Claim {
        e.storage().instance().get(&symbol_short!("rec")).unwrap()
    }
}
