//! AccessControl wrapper: the whole trait with its default bodies, admin set by the constructor.
use soroban_sdk::{contract, contractimpl, Address, Env, Symbol, Vec};
use stellar_access::access_control::{set_admin, AccessControl};
use stellar_macros::{has_any_role, has_role, only_admin, only_any_role, only_role};

#[contract]
pub struct AcWrap;

#[contractimpl]
impl AcWrap {
    pub fn __constructor(e: &Env, admin: Address) {
        set_admin(e, &admin);
    }
    /// guarded entry points, one per macro form; each bumps a counter so that execution is observable
    #[only_admin]
    pub fn g_admin(e: &Env) -> u32 {
        bump(e)
    }
    #[only_role(caller, "r0")]
    pub fn g_only_role(e: &Env, caller: Address) -> u32 {
        bump(e)
    }
    #[has_role(caller, "r0")]
    pub fn g_has_role(e: &Env, caller: Address) -> u32 {
        bump(e)
    }
    #[only_any_role(caller, ["r1", "r2"])]
    pub fn g_only_any(e: &Env, caller: Address) -> u32 {
        bump(e)
    }
    #[has_any_role(caller, ["r1", "r2"])]
    pub fn g_has_any(e: &Env, caller: Address) -> u32 {
        bump(e)
    }
    /// stacked guards: every attribute below the first one must survive the first one's expansion
    #[has_role(caller, "r0")]
    #[only_any_role(caller, ["r1", "r2"])]
    pub fn g_stacked_a(e: &Env, caller: Address) -> u32 {
        bump(e)
    }
    #[only_role(caller, "r0")]
    #[has_any_role(caller, ["r1", "r2"])]
    pub fn g_stacked_b(e: &Env, caller: Address) -> u32 {
        bump(e)
    }
    pub fn counter(e: &Env) -> u32 {
        e.storage().instance().get(&Symbol::new(e, "ctr")).unwrap_or(0)
    }
}

fn bump(e: &Env) -> u32 {
    let k = Symbol::new(e, "ctr");
    let c: u32 = e.storage().instance().get(&k).unwrap_or(0) + 1;
    e.storage().instance().set(&k, &c);
    c
}

#[contractimpl(contracttrait)]
impl AccessControl for AcWrap {}
