//! Timelock wrapper (no roles: the library functions as they are) and a counting target.
use soroban_sdk::{contract, contractimpl, contracttype, Address, BytesN, Env, Symbol, Val, Vec};
use stellar_governance::timelock::{
    cancel_operation, execute_operation, get_min_delay, get_operation_ledger, get_operation_state, hash_operation,
    is_operation_done, is_operation_pending, is_operation_ready, operation_exists, schedule_operation, set_execute_operation, set_min_delay, Operation, OperationState,
};

#[contract]
pub struct TlWrap;

#[contractimpl]
impl TlWrap {
    /// `None`: a timelock whose minimum delay was never set
    pub fn __constructor(e: &Env, min_delay: Option<u32>) {
        if let Some(d) = min_delay {
            set_min_delay(e, d);
        }
    }
    pub fn schedule(e: &Env, target: Address, function: Symbol, args: Vec<Val>, predecessor: BytesN<32>, salt: BytesN<32>, delay: u32) -> BytesN<32> {
        schedule_operation(e, &Operation { target, function, args, predecessor, salt }, delay)
    }
    pub fn execute(e: &Env, target: Address, function: Symbol, args: Vec<Val>, predecessor: BytesN<32>, salt: BytesN<32>) -> Val {
        execute_operation(e, &Operation { target, function, args, predecessor, salt })
    }
    /// the library's other way of consuming an operation (used by self-administered controllers):
    /// marks it executed without invoking the target
    pub fn mark(e: &Env, target: Address, function: Symbol, args: Vec<Val>, predecessor: BytesN<32>, salt: BytesN<32>) {
        set_execute_operation(e, &Operation { target, function, args, predecessor, salt })
    }
    pub fn cancel(e: &Env, id: BytesN<32>) {
        cancel_operation(e, &id)
    }
    pub fn set_min_delay(e: &Env, d: u32) {
        set_min_delay(e, d)
    }
    pub fn min_delay(e: &Env) -> u32 {
        get_min_delay(e)
    }
    pub fn state(e: &Env, id: BytesN<32>) -> u32 {
        match get_operation_state(e, &id) {
            OperationState::Unset => 0,
            OperationState::Waiting => 1,
            OperationState::Ready => 2,
            OperationState::Done => 3,
        }
    }
    /// (exists, pending, ready, done) as the four predicates answer
    pub fn predicates(e: &Env, id: BytesN<32>) -> (bool, bool, bool, bool) {
        (operation_exists(e, &id), is_operation_pending(e, &id), is_operation_ready(e, &id), is_operation_done(e, &id))
    }
    pub fn ledger_of(e: &Env, id: BytesN<32>) -> u32 {
        get_operation_ledger(e, &id)
    }
    pub fn hash(e: &Env, target: Address, function: Symbol, args: Vec<Val>, predecessor: BytesN<32>, salt: BytesN<32>) -> BytesN<32> {
        hash_operation(e, &Operation { target, function, args, predecessor, salt })
    }
}

#[contracttype]
pub enum TKey {
    Count(u32),
}

/// Target whose invocations are counted in its own storage (rolled back with a failed transaction).
#[contract]
pub struct CountTarget;

#[contractimpl]
impl CountTarget {
    pub fn bump(e: &Env, k: u32) -> u32 {
        let c: u32 = e.storage().persistent().get(&TKey::Count(k)).unwrap_or(0) + 1;
        e.storage().persistent().set(&TKey::Count(k), &c);
        c
    }
    pub fn count(e: &Env, k: u32) -> u32 {
        e.storage().persistent().get(&TKey::Count(k)).unwrap_or(0)
    }
    pub fn fail(_e: &Env, _k: u32) -> u32 {
        panic!("target refuses")
    }
}
