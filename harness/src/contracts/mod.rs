//! Thin contract wrappers over library functions (a single forwarding call per entry point) and
//! instrumented counterpart contracts.
pub mod math;
pub mod tokens;
pub mod access;
pub mod timelock;
pub mod rwa;
pub mod nft;
pub mod policies;
pub mod sa;
pub mod identity;
pub mod misc;
pub mod merkle;
pub mod registries;
