//! A natively registered migratable contract (the derive macro's `upgrade`/`migrate` as they are in
//! the working tree) whose migration body is observable.
use soroban_sdk::{contract, contractimpl, contracttype, Address, Env, Symbol};
use stellar_contract_utils::upgradeable::{can_complete_migration, enable_migration, UpgradeableMigratableInternal};
use stellar_macros::UpgradeableMigratable;

#[contracttype]
pub struct MigData {
    pub n: u32,
}

#[derive(UpgradeableMigratable)]
#[contract]
pub struct Migr;

impl UpgradeableMigratableInternal for Migr {
    type MigrationData = MigData;

    fn _require_auth(e: &Env, operator: &Address) {
        operator.require_auth();
        let owner: Address = e.storage().instance().get(&soroban_sdk::symbol_short!("OWNER")).unwrap();
        if *operator != owner {
            panic!("not the owner");
        }
    }
    fn _migrate(e: &Env, data: &Self::MigrationData) {
        let k = Symbol::new(e, "migrations");
        let c: u32 = e.storage().instance().get(&k).unwrap_or(0);
        e.storage().instance().set(&k, &(c + 1));
        e.storage().instance().set(&Symbol::new(e, "last"), &data.n);
    }
}

#[contractimpl]
impl Migr {
    pub fn __constructor(e: &Env, owner: Address) {
        // same key as the repository's upgradeable examples, so that their prebuilt v2 can take over
        e.storage().instance().set(&soroban_sdk::symbol_short!("OWNER"), &owner);
    }
    /// what the macro-generated `upgrade` does right before it swaps the code
    pub fn simulate_upgrade_flag(e: &Env) {
        enable_migration(e);
    }
    pub fn migrations(e: &Env) -> u32 {
        e.storage().instance().get(&Symbol::new(e, "migrations")).unwrap_or(0)
    }
    pub fn flag(e: &Env) -> bool {
        can_complete_migration(e)
    }
}

// ---------------- the fee helper on its own ----------------
/// `collect_fee` is a public library function of its own (the forwarders reach it through
/// `collect_fee_and_invoke`); this wrapper calls it directly, with either approval strategy.
#[soroban_sdk::contract]
pub struct FeeWrap;

#[soroban_sdk::contractimpl]
impl FeeWrap {
    #[allow(clippy::too_many_arguments)]
    pub fn collect(e: &soroban_sdk::Env, token: soroban_sdk::Address, fee: i128, max: i128, exp: u32, user: soroban_sdk::Address, recipient: soroban_sdk::Address, eager: bool) {
        use stellar_fee_abstraction::FeeAbstractionApproval;
        stellar_fee_abstraction::collect_fee(e, &token, fee, max, exp, &user, &recipient, if eager { FeeAbstractionApproval::Eager } else { FeeAbstractionApproval::Lazy })
    }
}

// ---------------- guard macros stacked on one entry point ----------------
/// An owner guard and the pause guard on the same function, in both orders: each macro regenerates the
/// function and must hand the attributes below it on to the next expansion.
#[soroban_sdk::contract]
pub struct StackedGuards;

#[soroban_sdk::contractimpl]
impl StackedGuards {
    pub fn __constructor(e: &soroban_sdk::Env, owner: soroban_sdk::Address) {
        stellar_access::ownable::set_owner(e, &owner);
    }
    pub fn pause(e: &soroban_sdk::Env) {
        stellar_contract_utils::pausable::pause(e)
    }
    pub fn unpause(e: &soroban_sdk::Env) {
        stellar_contract_utils::pausable::unpause(e)
    }
    #[stellar_macros::only_owner]
    #[stellar_macros::when_not_paused]
    pub fn owner_then_pause(e: &soroban_sdk::Env) -> u32 {
        sg_bump(e)
    }
    #[stellar_macros::when_not_paused]
    #[stellar_macros::only_owner]
    pub fn pause_then_owner(e: &soroban_sdk::Env) -> u32 {
        sg_bump(e)
    }
    #[stellar_macros::only_owner]
    #[stellar_macros::when_paused]
    pub fn owner_then_paused(e: &soroban_sdk::Env) -> u32 {
        sg_bump(e)
    }
    pub fn count(e: &soroban_sdk::Env) -> u32 {
        e.storage().instance().get(&soroban_sdk::symbol_short!("SGC")).unwrap_or(0)
    }
}

fn sg_bump(e: &soroban_sdk::Env) -> u32 {
    let c: u32 = e.storage().instance().get(&soroban_sdk::symbol_short!("SGC")).unwrap_or(0) + 1;
    e.storage().instance().set(&soroban_sdk::symbol_short!("SGC"), &c);
    c
}
