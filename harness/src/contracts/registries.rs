//! Wrappers over the remaining registries of the library (single forwarding call per entry point).
use soroban_sdk::{contract, contractimpl, Address, Bytes, BytesN, Env, String, Vec};
use stellar_tokens::rwa::compliance::storage as compl;
use stellar_tokens::rwa::compliance::ComplianceHook;
use stellar_tokens::rwa::extensions::doc_manager::{
    get_document, get_document_by_index, get_document_count, get_documents, remove_document, set_document, Document,
};
use stellar_tokens::rwa::utils::token_binder::{
    bind_token, bind_tokens, get_token_by_index, get_token_index, is_token_bound, linked_tokens, unbind_token,
};

#[contract]
pub struct BinderC;

#[contractimpl]
impl BinderC {
    pub fn bind_token(e: &Env, token: Address) {
        bind_token(e, &token)
    }
    pub fn bind_tokens(e: &Env, tokens: Vec<Address>) {
        bind_tokens(e, &tokens)
    }
    pub fn unbind_token(e: &Env, token: Address) {
        unbind_token(e, &token)
    }
    pub fn linked_tokens(e: &Env) -> Vec<Address> {
        linked_tokens(e)
    }
    pub fn get_token_by_index(e: &Env, index: u32) -> Address {
        get_token_by_index(e, index)
    }
    pub fn get_token_index(e: &Env, token: Address) -> u32 {
        get_token_index(e, &token)
    }
    pub fn is_token_bound(e: &Env, token: Address) -> bool {
        is_token_bound(e, &token)
    }
}

#[contract]
pub struct DocsC;

#[contractimpl]
impl DocsC {
    pub fn set_document(e: &Env, name: BytesN<32>, uri: String, hash: BytesN<32>) {
        set_document(e, &name, &uri, &hash)
    }
    pub fn remove_document(e: &Env, name: BytesN<32>) {
        remove_document(e, &name)
    }
    pub fn get_document(e: &Env, name: BytesN<32>) -> Document {
        get_document(e, &name)
    }
    pub fn get_document_by_index(e: &Env, index: u32) -> (BytesN<32>, Document) {
        get_document_by_index(e, index)
    }
    pub fn get_document_count(e: &Env) -> u32 {
        get_document_count(e)
    }
    pub fn get_documents(e: &Env, bucket: u32) -> Vec<(BytesN<32>, Document)> {
        get_documents(e, bucket)
    }
}

#[contract]
pub struct ComplC;

#[contractimpl]
impl ComplC {
    pub fn add_module_to(e: &Env, hook: ComplianceHook, module: Address) {
        compl::add_module_to(e, hook, module)
    }
    pub fn remove_module_from(e: &Env, hook: ComplianceHook, module: Address) {
        compl::remove_module_from(e, hook, module)
    }
    pub fn get_modules_for_hook(e: &Env, hook: ComplianceHook) -> Vec<Address> {
        compl::get_modules_for_hook(e, hook)
    }
    pub fn is_module_registered(e: &Env, hook: ComplianceHook, module: Address) -> bool {
        compl::is_module_registered(e, hook, module)
    }
}

/// A claim issuer that confirms everything (the claims registry of an identity is the subject).
#[contract]
pub struct YesIssuer;

#[contractimpl]
impl YesIssuer {
    pub fn is_claim_valid(_e: &Env, _identity: Address, _claim_topic: u32, _scheme: u32, _sig_data: Bytes, _claim_data: Bytes) {}
}
