//! Wrapper so that the panicking math variants can be reached through `try_*` clients.
use soroban_sdk::{contract, contractimpl, Env, I256};
use stellar_contract_utils::math::wad::Wad;
use stellar_contract_utils::math::{mul_div_i128, mul_div_i256, Rounding};

pub fn rounding(r: u32) -> Rounding {
    match r {
        0 => Rounding::Floor,
        1 => Rounding::Ceil,
        _ => Rounding::Truncate,
    }
}

#[contract]
pub struct MathC;

#[contractimpl]
impl MathC {
    pub fn muldiv(e: Env, x: i128, y: i128, d: i128, r: u32) -> i128 {
        mul_div_i128(&e, x, y, d, rounding(r))
    }
    pub fn muldiv256(e: Env, x: I256, y: I256, d: I256, r: u32) -> I256 {
        mul_div_i256(&e, x, y, d, rounding(r))
    }
    pub fn wad_pow(e: Env, x: i128, n: u32) -> i128 {
        Wad::from_raw(x).pow(&e, n).raw()
    }
    pub fn wad_from_ratio(e: Env, n: i128, d: i128) -> i128 {
        Wad::from_ratio(&e, n, d).raw()
    }
    pub fn wad_from_integer(e: Env, n: i128) -> i128 {
        Wad::from_integer(&e, n).raw()
    }
    pub fn wad_from_token(e: Env, n: i128, dec: u32) -> i128 {
        Wad::from_token_amount(&e, n, dec as u8).raw()
    }
    pub fn wad_to_token(e: Env, n: i128, dec: u32) -> i128 {
        Wad::from_raw(n).to_token_amount(&e, dec as u8)
    }
}
