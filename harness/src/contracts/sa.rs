//! Instrumented counterparts for the smart account: a scriptable policy and a scriptable verifier.
//! Both log every call into their own storage (rolled back together with a failed check).
use soroban_sdk::{auth::Context, contract, contractimpl, contracttype, Address, Bytes, Env, Val, Vec};
use stellar_accounts::smart_account::{ContextRule, Signer};

#[contracttype]
#[derive(Clone, Debug, PartialEq)]
pub struct PolicyCall {
    /// 0 can_enforce, 1 enforce, 2 install, 3 uninstall
    pub kind: u32,
    pub rule_id: u32,
    pub signers: Vec<Signer>,
    /// XDR of the context (empty for install / uninstall)
    pub context: Bytes,
    pub account: Address,
}

#[contracttype]
pub enum PKey {
    Log,
    /// per rule id: bit0 = can_enforce answers false, bit1 = enforce refuses
    Script(u32),
    Moods,
}

#[contract]
pub struct MockPolicy;

fn plog(e: &Env, c: PolicyCall) {
    let mut l: Vec<PolicyCall> = e.storage().persistent().get(&PKey::Log).unwrap_or(Vec::new(e));
    l.push_back(c);
    e.storage().persistent().set(&PKey::Log, &l);
}

#[contractimpl]
impl MockPolicy {
    pub fn set_script(e: &Env, rule_id: u32, bits: u32) {
        e.storage().persistent().set(&PKey::Script(rule_id), &bits);
    }
    pub fn log(e: &Env) -> Vec<PolicyCall> {
        e.storage().persistent().get(&PKey::Log).unwrap_or(Vec::new(e))
    }
    pub fn clear(e: &Env) {
        e.storage().persistent().remove(&PKey::Log);
    }
    pub fn can_enforce(e: &Env, context: Context, authenticated_signers: Vec<Signer>, context_rule: ContextRule, smart_account: Address) -> bool {
        let bits: u32 = e.storage().persistent().get(&PKey::Script(context_rule.id)).unwrap_or(0);
        plog(e, PolicyCall { kind: 0, rule_id: context_rule.id, signers: authenticated_signers, context: soroban_sdk::xdr::ToXdr::to_xdr(context, e), account: smart_account });
        bits & 1 == 0
    }
    pub fn enforce(e: &Env, context: Context, authenticated_signers: Vec<Signer>, context_rule: ContextRule, smart_account: Address) {
        let bits: u32 = e.storage().persistent().get(&PKey::Script(context_rule.id)).unwrap_or(0);
        if bits & 2 != 0 {
            panic!("scripted refusal");
        }
        plog(e, PolicyCall { kind: 1, rule_id: context_rule.id, signers: authenticated_signers, context: soroban_sdk::xdr::ToXdr::to_xdr(context, e), account: smart_account });
    }
    /// bit 0: install fails, bit 1: uninstall fails
    pub fn set_moods(e: &Env, bits: u32) {
        e.storage().persistent().set(&PKey::Moods, &bits);
    }
    pub fn install(e: &Env, _install_params: Val, context_rule: ContextRule, smart_account: Address) {
        if e.storage().persistent().get::<_, u32>(&PKey::Moods).unwrap_or(0) & 1 != 0 {
            panic!("install refused");
        }
        plog(e, PolicyCall { kind: 2, rule_id: context_rule.id, signers: context_rule.signers.clone(), context: Bytes::new(e), account: smart_account });
    }
    pub fn uninstall(e: &Env, context_rule: ContextRule, smart_account: Address) {
        if e.storage().persistent().get::<_, u32>(&PKey::Moods).unwrap_or(0) & 2 != 0 {
            panic!("uninstall refused");
        }
        plog(e, PolicyCall { kind: 3, rule_id: context_rule.id, signers: context_rule.signers.clone(), context: Bytes::new(e), account: smart_account });
    }
}

#[contracttype]
#[derive(Clone, Debug, PartialEq)]
pub struct VerifyCall {
    pub hash: Bytes,
    pub key: Bytes,
}

#[contracttype]
pub enum VKey {
    Log,
}

/// verify() answers by the signature bytes: b"ok" -> true, anything else -> false.
#[contract]
pub struct MockVerifier;

#[contractimpl]
impl MockVerifier {
    pub fn verify(e: &Env, hash: Bytes, key_data: Bytes, sig_data: Bytes) -> bool {
        let mut l: Vec<VerifyCall> = e.storage().persistent().get(&VKey::Log).unwrap_or(Vec::new(e));
        l.push_back(VerifyCall { hash, key: key_data });
        e.storage().persistent().set(&VKey::Log, &l);
        sig_data == Bytes::from_slice(e, b"ok")
    }
    pub fn log(e: &Env) -> Vec<VerifyCall> {
        e.storage().persistent().get(&VKey::Log).unwrap_or(Vec::new(e))
    }
    pub fn clear(e: &Env) {
        e.storage().persistent().remove(&VKey::Log);
    }
}
