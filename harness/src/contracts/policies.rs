//! Weighted-threshold policy wrapper (the library functions wired exactly as the threshold example
//! wires the simple policy) and an instrumented scriptable policy / verifier for C03.
use soroban_sdk::{auth::Context, contract, contractimpl, Address, Env, Map, Vec};
use stellar_accounts::policies::{weighted_threshold, Policy};
use stellar_accounts::smart_account::{ContextRule, Signer};

#[contract]
pub struct WeightedPolicy;

#[contractimpl]
impl Policy for WeightedPolicy {
    type AccountParams = weighted_threshold::WeightedThresholdAccountParams;

    fn can_enforce(e: &Env, context: Context, authenticated_signers: Vec<Signer>, context_rule: ContextRule, smart_account: Address) -> bool {
        weighted_threshold::can_enforce(e, &context, &authenticated_signers, &context_rule, &smart_account)
    }
    fn enforce(e: &Env, context: Context, authenticated_signers: Vec<Signer>, context_rule: ContextRule, smart_account: Address) {
        weighted_threshold::enforce(e, &context, &authenticated_signers, &context_rule, &smart_account)
    }
    fn install(e: &Env, install_params: Self::AccountParams, context_rule: ContextRule, smart_account: Address) {
        weighted_threshold::install(e, &install_params, &context_rule, &smart_account)
    }
    fn uninstall(e: &Env, context_rule: ContextRule, smart_account: Address) {
        weighted_threshold::uninstall(e, &context_rule, &smart_account)
    }
}

#[contractimpl]
impl WeightedPolicy {
    pub fn get_threshold(e: &Env, context_rule_id: u32, smart_account: Address) -> u32 {
        weighted_threshold::get_threshold(e, context_rule_id, &smart_account)
    }
    pub fn set_threshold(e: &Env, threshold: u32, context_rule: ContextRule, smart_account: Address) {
        weighted_threshold::set_threshold(e, threshold, &context_rule, &smart_account)
    }
    pub fn set_signer_weight(e: &Env, signer: Signer, weight: u32, context_rule: ContextRule, smart_account: Address) {
        weighted_threshold::set_signer_weight(e, &signer, weight, &context_rule, &smart_account)
    }
    pub fn get_signer_weights(e: &Env, context_rule: ContextRule, smart_account: Address) -> Map<Signer, u32> {
        weighted_threshold::get_signer_weights(e, &context_rule, &smart_account)
    }
}
