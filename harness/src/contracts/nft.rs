//! NFT wrappers: the three `ContractType`s wired as the examples wire them, with un-gated mints.
use soroban_sdk::{contract, contractimpl, Address, Env, String};
use stellar_tokens::non_fungible::{
    burnable::NonFungibleBurnable,
    consecutive::{Consecutive, NonFungibleConsecutive},
    enumerable::{Enumerable, NonFungibleEnumerable},
    Base, ContractOverrides, NonFungibleToken,
};

fn meta(e: &Env) {
    Base::set_metadata(e, String::from_str(e, "https://x/"), String::from_str(e, "N"), String::from_str(e, "N"));
}

#[contract]
pub struct NftBase;

#[contractimpl]
impl NftBase {
    pub fn __constructor(e: &Env) {
        meta(e);
    }
    pub fn mint_seq(e: &Env, to: Address) -> u32 {
        Base::sequential_mint(e, &to)
    }
    pub fn mint_id(e: &Env, to: Address, token_id: u32) {
        Base::mint(e, &to, token_id)
    }
}

#[contractimpl(contracttrait)]
impl NonFungibleToken for NftBase {
    type ContractType = Base;
}

#[contractimpl(contracttrait)]
impl NonFungibleBurnable for NftBase {}

#[contract]
pub struct NftEnum;

#[contractimpl]
impl NftEnum {
    pub fn __constructor(e: &Env) {
        meta(e);
    }
    pub fn mint_seq(e: &Env, to: Address) -> u32 {
        Enumerable::sequential_mint(e, &to)
    }
    pub fn mint_id(e: &Env, to: Address, token_id: u32) {
        Enumerable::non_sequential_mint(e, &to, token_id)
    }
}

#[contractimpl(contracttrait)]
impl NonFungibleToken for NftEnum {
    type ContractType = Enumerable;
}

#[contractimpl(contracttrait)]
impl NonFungibleEnumerable for NftEnum {}

#[contractimpl(contracttrait)]
impl NonFungibleBurnable for NftEnum {}

#[contract]
pub struct NftCons;

#[contractimpl]
impl NftCons {
    pub fn __constructor(e: &Env) {
        meta(e);
    }
    pub fn batch_mint(e: &Env, to: Address, amount: u32) -> u32 {
        Consecutive::batch_mint(e, &to, amount)
    }
}

// The trait's default methods: inside them `Self::ContractType` is only known as a `ContractOverrides`, so
// every call goes through `impl ContractOverrides for Consecutive` (the example spells its methods out,
// where the same paths resolve to the inherent functions of `Consecutive` instead - flavour ExCons).
#[contractimpl(contracttrait)]
impl NonFungibleToken for NftCons {
    type ContractType = Consecutive;
}

impl NonFungibleConsecutive for NftCons {}

#[contractimpl(contracttrait)]
impl NonFungibleBurnable for NftCons {}

// ---------------- NFT with votes ----------------
use stellar_governance::votes::Votes;
use stellar_tokens::non_fungible::votes::NonFungibleVotes;

#[contract]
pub struct NftVotes;

#[contractimpl]
impl NftVotes {
    pub fn __constructor(e: &Env) {
        meta(e);
    }
    pub fn mint_seq(e: &Env, to: Address) -> u32 {
        NonFungibleVotes::sequential_mint(e, &to)
    }
    pub fn mint_id(e: &Env, to: Address, token_id: u32) -> u32 {
        NonFungibleVotes::mint(e, &to, token_id);
        token_id
    }
}

#[contractimpl(contracttrait)]
impl NonFungibleToken for NftVotes {
    type ContractType = NonFungibleVotes;
}

#[contractimpl(contracttrait)]
impl NonFungibleBurnable for NftVotes {}

#[contractimpl(contracttrait)]
impl Votes for NftVotes {}
