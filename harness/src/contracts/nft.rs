//! NFT wrappers: the three `ContractType`s wired as the examples wire them, with un-gated mints.
use soroban_sdk::{contract, contractimpl, Address, Env, String};
use stellar_tokens::non_fungible::{
    burnable::NonFungibleBurnable,
    consecutive::{Consecutive, NonFungibleConsecutive},
    enumerable::{Enumerable, NonFungibleEnumerable},
    Base, ContractOverrides, NonFungibleToken,
};

fn meta(e: &Env) {
    Base::set_metadata(e, String::from_str(e, "https://x/"), String::from_str(e, "N"), String::from_str(e, "N"));
}

#[contract]
pub struct NftBase;

#[contractimpl]
impl NftBase {
    pub fn __constructor(e: &Env) {
        meta(e);
    }
    pub fn mint_seq(e: &Env, to: Address) -> u32 {
        Base::sequential_mint(e, &to)
    }
    pub fn mint_id(e: &Env, to: Address, token_id: u32) {
        Base::mint(e, &to, token_id)
    }
}

#[contractimpl(contracttrait)]
impl NonFungibleToken for NftBase {
    type ContractType = Base;
}

#[contractimpl(contracttrait)]
impl NonFungibleBurnable for NftBase {}

#[contract]
pub struct NftEnum;

#[contractimpl]
impl NftEnum {
    pub fn __constructor(e: &Env) {
        meta(e);
    }
    pub fn mint_seq(e: &Env, to: Address) -> u32 {
        Enumerable::sequential_mint(e, &to)
    }
    pub fn mint_id(e: &Env, to: Address, token_id: u32) {
        Enumerable::non_sequential_mint(e, &to, token_id)
    }
}

#[contractimpl(contracttrait)]
impl NonFungibleToken for NftEnum {
    type ContractType = Enumerable;
}

#[contractimpl(contracttrait)]
impl NonFungibleEnumerable for NftEnum {}

#[contractimpl(contracttrait)]
impl NonFungibleBurnable for NftEnum {}

#[contract]
pub struct NftCons;

#[contractimpl]
impl NftCons {
    pub fn __constructor(e: &Env) {
        meta(e);
    }
    pub fn batch_mint(e: &Env, to: Address, amount: u32) -> u32 {
        Consecutive::batch_mint(e, &to, amount)
    }
}

#[contractimpl(contracttrait)]
impl NonFungibleToken for NftCons {
    type ContractType = Consecutive;

    fn balance(e: &Env, owner: Address) -> u32 {
        Self::ContractType::balance(e, &owner)
    }
    fn owner_of(e: &Env, token_id: u32) -> Address {
        Self::ContractType::owner_of(e, token_id)
    }
    fn transfer(e: &Env, from: Address, to: Address, token_id: u32) {
        Self::ContractType::transfer(e, &from, &to, token_id);
    }
    fn transfer_from(e: &Env, spender: Address, from: Address, to: Address, token_id: u32) {
        Self::ContractType::transfer_from(e, &spender, &from, &to, token_id);
    }
    fn approve(e: &Env, approver: Address, approved: Address, token_id: u32, live_until_ledger: u32) {
        Self::ContractType::approve(e, &approver, &approved, token_id, live_until_ledger);
    }
    fn approve_for_all(e: &Env, owner: Address, operator: Address, live_until_ledger: u32) {
        Self::ContractType::approve_for_all(e, &owner, &operator, live_until_ledger);
    }
    fn get_approved(e: &Env, token_id: u32) -> Option<Address> {
        Self::ContractType::get_approved(e, token_id)
    }
    fn is_approved_for_all(e: &Env, owner: Address, operator: Address) -> bool {
        Self::ContractType::is_approved_for_all(e, &owner, &operator)
    }
    fn name(e: &Env) -> String {
        Self::ContractType::name(e)
    }
    fn symbol(e: &Env) -> String {
        Self::ContractType::symbol(e)
    }
    fn token_uri(e: &Env, token_id: u32) -> String {
        Self::ContractType::token_uri(e, token_id)
    }
}

impl NonFungibleConsecutive for NftCons {}

#[contractimpl(contracttrait)]
impl NonFungibleBurnable for NftCons {}

// ---------------- NFT with votes ----------------
use stellar_governance::votes::Votes;
use stellar_tokens::non_fungible::votes::NonFungibleVotes;

#[contract]
pub struct NftVotes;

#[contractimpl]
impl NftVotes {
    pub fn __constructor(e: &Env) {
        meta(e);
    }
    pub fn mint_seq(e: &Env, to: Address) -> u32 {
        NonFungibleVotes::sequential_mint(e, &to)
    }
}

#[contractimpl(contracttrait)]
impl NonFungibleToken for NftVotes {
    type ContractType = NonFungibleVotes;
}

#[contractimpl(contracttrait)]
impl NonFungibleBurnable for NftVotes {}

#[contractimpl(contracttrait)]
impl Votes for NftVotes {}
