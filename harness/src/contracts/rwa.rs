//! RWA token wrapper (`ContractType = RWA`, supervisory functions un-gated) with instrumented
//! compliance and identity-verifier counterparts that log into their own storage (so a rolled-back
//! transaction leaves no log entry).
use soroban_sdk::{contract, contractimpl, contracttype, Address, Env, MuxedAddress, String, Vec};
use stellar_contract_utils::pausable;
use stellar_tokens::fungible::{Base, FungibleToken};
use stellar_tokens::rwa::RWA;

#[contract]
pub struct RwaTok;

#[contractimpl]
impl RwaTok {
    /// Either contract may be left out (a token that is not wired up yet) and named later.
    pub fn __constructor(e: &Env, compliance: Option<Address>, identity: Option<Address>) {
        Base::set_metadata(e, 7, String::from_str(e, "R"), String::from_str(e, "R"));
        if let Some(c) = compliance {
            RWA::set_compliance(e, &c);
        }
        if let Some(i) = identity {
            RWA::set_identity_verifier(e, &i);
        }
    }
    pub fn wire_compliance(e: &Env, compliance: Address) {
        RWA::set_compliance(e, &compliance);
    }
    pub fn wire_identity_verifier(e: &Env, identity: Address) {
        RWA::set_identity_verifier(e, &identity);
    }
    pub fn mint(e: &Env, to: Address, amount: i128) {
        RWA::mint(e, &to, amount)
    }
    pub fn burn(e: &Env, user: Address, amount: i128) {
        RWA::burn(e, &user, amount)
    }
    pub fn forced_transfer(e: &Env, from: Address, to: Address, amount: i128) {
        RWA::forced_transfer(e, &from, &to, amount)
    }
    pub fn recover_balance(e: &Env, old: Address, new: Address) -> bool {
        RWA::recover_balance(e, &old, &new)
    }
    pub fn set_address_frozen(e: &Env, user: Address, freeze: bool) {
        RWA::set_address_frozen(e, &user, freeze)
    }
    pub fn freeze_partial_tokens(e: &Env, user: Address, amount: i128) {
        RWA::freeze_partial_tokens(e, &user, amount)
    }
    pub fn unfreeze_partial_tokens(e: &Env, user: Address, amount: i128) {
        RWA::unfreeze_partial_tokens(e, &user, amount)
    }
    pub fn is_frozen(e: &Env, user: Address) -> bool {
        RWA::is_frozen(e, &user)
    }
    pub fn get_frozen_tokens(e: &Env, user: Address) -> i128 {
        RWA::get_frozen_tokens(e, &user)
    }
    pub fn pause(e: &Env) {
        pausable::pause(e)
    }
    pub fn unpause(e: &Env) {
        pausable::unpause(e)
    }
    pub fn paused(e: &Env) -> bool {
        pausable::paused(e)
    }
}

#[contractimpl(contracttrait)]
impl FungibleToken for RwaTok {
    type ContractType = RWA;
}

// ---------------- instrumented compliance ----------------
#[contracttype]
#[derive(Clone, Debug, PartialEq)]
pub struct HookCall {
    /// 0 transferred, 1 created, 2 destroyed, 3 can_transfer, 4 can_create
    pub kind: u32,
    pub a: Address,
    pub b: Address,
    pub amount: i128,
    pub token: Address,
}

#[contracttype]
pub enum CKey {
    DenyTransfer,
    DenyCreate,
    Log,
    /// the `can_*` questions asked since the last `clear_questions` (survives only in successful calls)
    Questions,
}

#[contract]
pub struct MockCompliance;

fn qlog(e: &Env, c: HookCall) {
    let mut l: Vec<HookCall> = e.storage().persistent().get(&CKey::Questions).unwrap_or(Vec::new(e));
    l.push_back(c);
    e.storage().persistent().set(&CKey::Questions, &l);
}

fn clog(e: &Env, c: HookCall) {
    let mut l: Vec<HookCall> = e.storage().persistent().get(&CKey::Log).unwrap_or(Vec::new(e));
    l.push_back(c);
    e.storage().persistent().set(&CKey::Log, &l);
}

#[contractimpl]
impl MockCompliance {
    pub fn set_flags(e: &Env, deny_transfer: bool, deny_create: bool) {
        e.storage().persistent().set(&CKey::DenyTransfer, &deny_transfer);
        e.storage().persistent().set(&CKey::DenyCreate, &deny_create);
    }
    /// state-changing hooks only (the `can_*` queries are not logged: they are reads)
    pub fn log(e: &Env) -> Vec<HookCall> {
        e.storage().persistent().get(&CKey::Log).unwrap_or(Vec::new(e))
    }
    pub fn transferred(e: &Env, from: Address, to: Address, amount: i128, token: Address) {
        clog(e, HookCall { kind: 0, a: from, b: to, amount, token });
    }
    pub fn created(e: &Env, to: Address, amount: i128, token: Address) {
        clog(e, HookCall { kind: 1, a: to.clone(), b: to, amount, token });
    }
    pub fn destroyed(e: &Env, from: Address, amount: i128, token: Address) {
        clog(e, HookCall { kind: 2, a: from.clone(), b: from, amount, token });
    }
    pub fn can_transfer(e: &Env, from: Address, to: Address, amount: i128, token: Address) -> bool {
        qlog(e, HookCall { kind: 3, a: from, b: to, amount, token });
        !e.storage().persistent().get(&CKey::DenyTransfer).unwrap_or(false)
    }
    pub fn can_create(e: &Env, to: Address, amount: i128, token: Address) -> bool {
        qlog(e, HookCall { kind: 4, a: to.clone(), b: to, amount, token });
        !e.storage().persistent().get(&CKey::DenyCreate).unwrap_or(false)
    }
    pub fn questions(e: &Env) -> Vec<HookCall> {
        e.storage().persistent().get(&CKey::Questions).unwrap_or(Vec::new(e))
    }
    pub fn clear_questions(e: &Env) {
        e.storage().persistent().remove(&CKey::Questions);
    }
}

// ---------------- instrumented identity verifier ----------------
#[contracttype]
pub enum IKey {
    Fail(Address),
    Recovery(Address),
}

#[contract]
pub struct MockIdentity;

#[contractimpl]
impl MockIdentity {
    pub fn set_fail(e: &Env, account: Address, fail: bool) {
        e.storage().persistent().set(&IKey::Fail(account), &fail);
    }
    pub fn set_recovery(e: &Env, old: Address, new: Option<Address>) {
        match new {
            Some(n) => e.storage().persistent().set(&IKey::Recovery(old), &n),
            None => e.storage().persistent().remove(&IKey::Recovery(old)),
        }
    }
    pub fn verify_identity(e: &Env, account: Address) {
        if e.storage().persistent().get(&IKey::Fail(account)).unwrap_or(false) {
            soroban_sdk::panic_with_error!(e, stellar_tokens::rwa::RWAError::IdentityVerificationFailed);
        }
    }
    pub fn recovery_target(e: &Env, old_account: Address) -> Option<Address> {
        e.storage().persistent().get(&IKey::Recovery(old_account))
    }
}

#[allow(dead_code)]
fn _unused(_: MuxedAddress) {}

// ---------------- the library's own modular compliance dispatcher, with instrumented modules ----------------
use stellar_tokens::rwa::compliance::storage as cstore;
use stellar_tokens::rwa::compliance::ComplianceHook;
use stellar_tokens::rwa::utils::token_binder::bind_token;

#[contract]
pub struct RealCompliance;

#[contractimpl]
impl RealCompliance {
    pub fn bind(e: &Env, token: Address) {
        bind_token(e, &token)
    }
    pub fn add_module_to(e: &Env, hook: ComplianceHook, module: Address) {
        cstore::add_module_to(e, hook, module)
    }
    pub fn remove_module_from(e: &Env, hook: ComplianceHook, module: Address) {
        cstore::remove_module_from(e, hook, module)
    }
    pub fn transferred(e: &Env, from: Address, to: Address, amount: i128, token: Address) {
        cstore::transferred(e, from, to, amount, token)
    }
    pub fn created(e: &Env, to: Address, amount: i128, token: Address) {
        cstore::created(e, to, amount, token)
    }
    pub fn destroyed(e: &Env, from: Address, amount: i128, token: Address) {
        cstore::destroyed(e, from, amount, token)
    }
    pub fn can_transfer(e: &Env, from: Address, to: Address, amount: i128, token: Address) -> bool {
        cstore::can_transfer(e, from, to, amount, token)
    }
    pub fn can_create(e: &Env, to: Address, amount: i128, token: Address) -> bool {
        cstore::can_create(e, to, amount, token)
    }
}

/// A compliance module whose verdicts are scripted and whose state-changing hooks are logged.
#[contract]
pub struct MockModule;

#[contractimpl]
impl MockModule {
    pub fn set_flags(e: &Env, deny_transfer: bool, deny_create: bool) {
        e.storage().persistent().set(&CKey::DenyTransfer, &deny_transfer);
        e.storage().persistent().set(&CKey::DenyCreate, &deny_create);
    }
    pub fn log(e: &Env) -> Vec<HookCall> {
        e.storage().persistent().get(&CKey::Log).unwrap_or(Vec::new(e))
    }
    pub fn on_transfer(e: &Env, from: Address, to: Address, amount: i128, token: Address) {
        clog(e, HookCall { kind: 0, a: from, b: to, amount, token });
    }
    pub fn on_created(e: &Env, to: Address, amount: i128, token: Address) {
        clog(e, HookCall { kind: 1, a: to.clone(), b: to, amount, token });
    }
    pub fn on_destroyed(e: &Env, from: Address, amount: i128, token: Address) {
        clog(e, HookCall { kind: 2, a: from.clone(), b: from, amount, token });
    }
    pub fn can_transfer(e: &Env, from: Address, to: Address, amount: i128, token: Address) -> bool {
        qlog(e, HookCall { kind: 3, a: from, b: to, amount, token });
        !e.storage().persistent().get(&CKey::DenyTransfer).unwrap_or(false)
    }
    pub fn can_create(e: &Env, to: Address, amount: i128, token: Address) -> bool {
        qlog(e, HookCall { kind: 4, a: to.clone(), b: to, amount, token });
        !e.storage().persistent().get(&CKey::DenyCreate).unwrap_or(false)
    }
    /// the `can_*` questions this module was asked inside calls that succeeded
    pub fn questions(e: &Env) -> Vec<HookCall> {
        e.storage().persistent().get(&CKey::Questions).unwrap_or(Vec::new(e))
    }
}
