#![allow(dead_code)]
//! `monitor <ID> --tier quick|thorough --seed S --shard i/n --out FILE [--only-history H]`
//! Runs the workload of one property shard against the real library code and writes what the
//! monitors observed. Exit 0 = shard finished (violations are in the output), 3 = harness error.
#![allow(clippy::too_many_arguments)]
mod contracts;
mod examples;
mod fung;
mod nft;
mod obs;
mod props;
mod report;
mod rng;
mod world;

use report::Report;
use std::time::Instant;

pub struct Cfg {
    pub tier: String,
    pub seed: u64,
    pub shard: u32,
    pub nshards: u32,
    /// replay: run only this history index of this shard
    pub only_history: Option<u64>,
}

impl Cfg {
    pub fn thorough(&self) -> bool {
        self.tier == "thorough"
    }
    /// pick(quick, thorough)
    pub fn pick<T>(&self, q: T, t: T) -> T {
        if self.thorough() {
            t
        } else {
            q
        }
    }
    /// Should history `h` run? (replay restricts to one)
    pub fn runs(&self, h: u64) -> bool {
        self.only_history.map_or(true, |o| o == h)
    }
}

thread_local! {
    static LAST_PANIC: std::cell::RefCell<String> = std::cell::RefCell::new(String::new());
}

pub fn last_panic() -> String {
    LAST_PANIC.with(|l| l.borrow().clone())
}

fn main() {
    let a: Vec<String> = std::env::args().collect();
    if a.len() < 2 {
        eprintln!("usage: monitor <ID> --tier T --seed S --shard i/n --out FILE");
        std::process::exit(3);
    }
    let prop = a[1].clone();
    let mut cfg = Cfg { tier: "quick".into(), seed: 1, shard: 0, nshards: 1, only_history: None };
    let mut out = String::new();
    let mut i = 2;
    while i < a.len() {
        match a[i].as_str() {
            "--tier" => {
                cfg.tier = a[i + 1].clone();
                i += 1
            }
            "--seed" => {
                cfg.seed = a[i + 1].parse().expect("seed");
                i += 1
            }
            "--shard" => {
                let (x, y) = a[i + 1].split_once('/').expect("i/n");
                cfg.shard = x.parse().unwrap();
                cfg.nshards = y.parse().unwrap();
                i += 1
            }
            "--out" => {
                out = a[i + 1].clone();
                i += 1
            }
            "--only-history" => {
                cfg.only_history = Some(a[i + 1].parse().unwrap());
                i += 1
            }
            x => {
                eprintln!("unknown argument {x}");
                std::process::exit(3)
            }
        }
        i += 1;
    }
    // Contract panics are caught by the host and classified; keep stderr quiet but remember the
    // last message so that a harness bug is still reported.
    std::panic::set_hook(Box::new(|info| {
        let s = format!("{info}");
        LAST_PANIC.with(|l| *l.borrow_mut() = s);
    }));
    let mut rep = Report::new(&prop, &cfg.tier, cfg.seed, cfg.shard, cfg.nshards);
    if !out.is_empty() {
        rep.partial_path = Some(format!("{out}.partial"));
    }
    let t0 = Instant::now();
    let r = std::panic::catch_unwind(std::panic::AssertUnwindSafe(|| props::run(&prop, &cfg, &mut rep)));
    let wall = t0.elapsed().as_secs_f64();
    let mut j = rep.to_json(wall);
    let mut code = 0;
    match r {
        Ok(true) => {}
        Ok(false) => {
            eprintln!("unknown property {prop}");
            code = 3;
        }
        Err(payload) if payload.downcast_ref::<world::QueryRefused>().is_some() => {
            // a query that must always be answered was refused: a violation, not a harness error
            let q = payload.downcast_ref::<world::QueryRefused>().unwrap();
            let (hist, step) = (rep.cur_hist, rep.trace.len());
            rep.violation(&format!("{prop}/query/{}/refused", q.what), format!("{} was refused in history {hist} after step {step}: {}", q.what, q.err));
            j = rep.to_json(wall);
        }
        Err(_) => {
            let msg = LAST_PANIC.with(|l| l.borrow().clone());
            eprintln!("harness error in {prop} shard {}: {msg}", cfg.shard);
            j["harness_error"] = serde_json::Value::String(format!(
                "{msg} (history {} step {})",
                rep.cur_hist,
                rep.trace.len()
            ));
            j["last_ops"] = serde_json::json!(rep.trace.iter().rev().take(8).rev().collect::<Vec<_>>());
            code = 3;
        }
    }
    if !out.is_empty() {
        std::fs::write(&out, serde_json::to_string(&j).unwrap()).expect("write out");
    } else {
        println!("{}", serde_json::to_string_pretty(&j).unwrap());
    }
    std::process::exit(code);
}
