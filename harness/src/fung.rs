//! Shared machinery for the fungible-token properties (C01, C02, C16): deployment of every
//! flavour, by-name invocation with chosen authorization, reference model, state observation,
//! event-log fold.
use crate::args;
use crate::contracts::tokens::{TokAllow, TokBase, TokBlock, TokVotes};
use crate::examples;
use crate::obs::{self, Ev};
use crate::rng::Rng;
use crate::world::{invoke, Fail, Inv, Must, World};
use soroban_sdk::{Address, Env, String as SString, Symbol, Val, Vec as SVec};
use std::collections::BTreeMap;

#[derive(Clone, Copy, PartialEq, Eq, Debug, PartialOrd, Ord)]
pub enum Flavour {
    Base,
    Allow,
    Block,
    Votes,
    ExPausable,
    ExAllow,
    ExBlock,
    ExVotes,
    /// RWA token behind permissive compliance / identity mocks (C02 only: holder-initiated entry points)
    Rwa,
}

pub const ALL_FLAVOURS: [Flavour; 8] = [
    Flavour::Base,
    Flavour::Allow,
    Flavour::Block,
    Flavour::Votes,
    Flavour::ExPausable,
    Flavour::ExAllow,
    Flavour::ExBlock,
    Flavour::ExVotes,
];

impl Flavour {
    pub fn name(&self) -> &'static str {
        match self {
            Flavour::Base => "base",
            Flavour::Allow => "allowlist",
            Flavour::Block => "blocklist",
            Flavour::Votes => "votes",
            Flavour::ExPausable => "ex-pausable",
            Flavour::ExAllow => "ex-allowlist",
            Flavour::ExBlock => "ex-blocklist",
            Flavour::ExVotes => "ex-votes",
            Flavour::Rwa => "rwa",
        }
    }
    pub fn has_burn(&self) -> bool {
        // the RWA burn is a supervisory operation, not a holder's
        !matches!(self, Flavour::ExBlock | Flavour::ExVotes | Flavour::Rwa)
    }
    pub fn has_mint(&self) -> bool {
        !matches!(self, Flavour::ExAllow | Flavour::ExBlock)
    }
    /// mint gated by an owner's authorization (examples)
    pub fn mint_needs_owner(&self) -> bool {
        matches!(self, Flavour::ExPausable | Flavour::ExVotes)
    }
    pub fn is_allow(&self) -> bool {
        matches!(self, Flavour::Allow | Flavour::ExAllow)
    }
    pub fn is_block(&self) -> bool {
        matches!(self, Flavour::Block | Flavour::ExBlock)
    }
}

/// Operation on a token; addresses are indices into the universe.
#[derive(Clone, Debug, PartialEq, Eq)]
pub enum Op {
    Mint { to: usize, a: i128 },
    Transfer { from: usize, to: usize, a: i128 },
    TransferFrom { sp: usize, from: usize, to: usize, a: i128 },
    Approve { owner: usize, sp: usize, a: i128, l: u32 },
    Burn { from: usize, a: i128 },
    BurnFrom { sp: usize, from: usize, a: i128 },
}

impl Op {
    pub fn name(&self) -> &'static str {
        match self {
            Op::Mint { .. } => "mint",
            Op::Transfer { .. } => "transfer",
            Op::TransferFrom { .. } => "transfer_from",
            Op::Approve { .. } => "approve",
            Op::Burn { .. } => "burn",
            Op::BurnFrom { .. } => "burn_from",
        }
    }
    pub fn amount(&self) -> i128 {
        match self {
            Op::Mint { a, .. }
            | Op::Transfer { a, .. }
            | Op::TransferFrom { a, .. }
            | Op::Approve { a, .. }
            | Op::Burn { a, .. }
            | Op::BurnFrom { a, .. } => *a,
        }
    }
    /// principal whose authorization the documentation requires (None: un-gated wrapper mint)
    pub fn principal(&self, owner_idx: usize, fl: Flavour) -> Option<usize> {
        match self {
            Op::Mint { .. } => {
                if fl.mint_needs_owner() {
                    Some(owner_idx)
                } else {
                    None
                }
            }
            Op::Transfer { from, .. } | Op::Burn { from, .. } => Some(*from),
            Op::TransferFrom { sp, .. } | Op::BurnFrom { sp, .. } => Some(*sp),
            Op::Approve { owner, .. } => Some(*owner),
        }
    }
    /// every address named by the call
    pub fn parties(&self) -> Vec<usize> {
        let mut v = match self {
            Op::Mint { to, .. } => vec![*to],
            Op::Transfer { from, to, .. } => vec![*from, *to],
            Op::TransferFrom { sp, from, to, .. } => vec![*sp, *from, *to],
            Op::Approve { owner, sp, .. } => vec![*owner, *sp],
            Op::Burn { from, .. } => vec![*from],
            Op::BurnFrom { sp, from, .. } => vec![*sp, *from],
        };
        v.sort();
        v.dedup();
        v
    }
}

#[derive(Clone, Debug, PartialEq, Eq)]
pub struct FState {
    pub bal: Vec<i128>,
    pub supply: i128,
    /// allowance[o * n + s]
    pub allow: Vec<i128>,
}

/// Reference model of a fungible token, written from the documentation.
#[derive(Clone, Debug)]
pub struct FModel {
    pub n: usize,
    pub bal: Vec<i128>,
    pub supply: i128,
    pub allow: BTreeMap<(usize, usize), (i128, u32)>,
    /// allow-list: allowed flags; block-list: blocked flags
    pub listed: Vec<bool>,
    pub paused: bool,
}

pub const E_BAL: u32 = 100;
pub const E_ALLOW: u32 = 101;
pub const E_LIVE: u32 = 102;
pub const E_NEG: u32 = 103;
pub const E_OVF: u32 = 104;
pub const E_NOT_ALLOWED: u32 = 113;
pub const E_BLOCKED: u32 = 114;
pub const E_PAUSED: u32 = 1000;

impl FModel {
    pub fn new(n: usize) -> FModel {
        FModel { n, bal: vec![0; n], supply: 0, allow: BTreeMap::new(), listed: vec![false; n], paused: false }
    }
    pub fn allowance(&self, o: usize, s: usize, cur: u32) -> i128 {
        match self.allow.get(&(o, s)) {
            Some((a, l)) if *l >= cur => *a,
            _ => 0,
        }
    }
    fn gate(&self, fl: Flavour, who: &[usize]) -> Result<(), u32> {
        if fl.is_allow() && who.iter().any(|i| !self.listed[*i]) {
            return Err(E_NOT_ALLOWED);
        }
        if fl.is_block() && who.iter().any(|i| self.listed[*i]) {
            return Err(E_BLOCKED);
        }
        Ok(())
    }
    /// Must the call succeed (given authorization is in order)? Err(code) = documented refusal.
    pub fn predict(&self, op: &Op, cur: u32, max_live: u32, fl: Flavour) -> Result<(), u32> {
        let pausable = fl == Flavour::ExPausable;
        match op {
            Op::Mint { a, .. } => {
                if pausable && self.paused {
                    return Err(E_PAUSED);
                }
                if *a < 0 {
                    return Err(E_NEG);
                }
                if self.supply.checked_add(*a).is_none() {
                    return Err(E_OVF);
                }
                Ok(())
            }
            Op::Transfer { from, to, a } => {
                if pausable && self.paused {
                    return Err(E_PAUSED);
                }
                self.gate(fl, &[*from, *to])?;
                if *a < 0 {
                    return Err(E_NEG);
                }
                if self.bal[*from] < *a {
                    return Err(E_BAL);
                }
                Ok(())
            }
            Op::TransferFrom { sp, from, to, a } => {
                if pausable && self.paused {
                    return Err(E_PAUSED);
                }
                self.gate(fl, &[*from, *to])?;
                if *a < 0 {
                    return Err(E_NEG);
                }
                if self.allowance(*from, *sp, cur) < *a {
                    return Err(E_ALLOW);
                }
                if self.bal[*from] < *a {
                    return Err(E_BAL);
                }
                Ok(())
            }
            Op::Approve { owner, a, l, .. } => {
                self.gate(fl, &[*owner])?;
                if *a < 0 {
                    return Err(E_NEG);
                }
                if *l > max_live || (*a > 0 && *l < cur) {
                    return Err(E_LIVE);
                }
                Ok(())
            }
            Op::Burn { from, a } => {
                if pausable && self.paused {
                    return Err(E_PAUSED);
                }
                self.gate(fl, &[*from])?;
                if *a < 0 {
                    return Err(E_NEG);
                }
                if self.bal[*from] < *a {
                    return Err(E_BAL);
                }
                Ok(())
            }
            Op::BurnFrom { sp, from, a } => {
                if pausable && self.paused {
                    return Err(E_PAUSED);
                }
                self.gate(fl, &[*from])?;
                if *a < 0 {
                    return Err(E_NEG);
                }
                if self.allowance(*from, *sp, cur) < *a {
                    return Err(E_ALLOW);
                }
                if self.bal[*from] < *a {
                    return Err(E_BAL);
                }
                Ok(())
            }
        }
    }
    fn spend(&mut self, o: usize, s: usize, a: i128) {
        if a > 0 {
            let e = self.allow.get_mut(&(o, s)).unwrap();
            e.0 -= a;
        }
    }
    /// Apply a call that succeeded.
    pub fn apply(&mut self, op: &Op) {
        match op {
            Op::Mint { to, a } => {
                self.bal[*to] += a;
                self.supply += a;
            }
            Op::Transfer { from, to, a } => {
                self.bal[*from] -= a;
                self.bal[*to] += a;
            }
            Op::TransferFrom { sp, from, to, a } => {
                self.spend(*from, *sp, *a);
                self.bal[*from] -= a;
                self.bal[*to] += a;
            }
            Op::Approve { owner, sp, a, l } => {
                self.allow.insert((*owner, *sp), (*a, *l));
            }
            Op::Burn { from, a } => {
                self.bal[*from] -= a;
                self.supply -= a;
            }
            Op::BurnFrom { sp, from, a } => {
                self.spend(*from, *sp, *a);
                self.bal[*from] -= a;
                self.supply -= a;
            }
        }
    }
    pub fn state(&self, cur: u32) -> FState {
        let mut allow = vec![0; self.n * self.n];
        for o in 0..self.n {
            for s in 0..self.n {
                allow[o * self.n + s] = self.allowance(o, s, cur);
            }
        }
        FState { bal: self.bal.clone(), supply: self.supply, allow }
    }
}

/// A deployed token plus the universe of addresses the workload names.
pub struct Token<'a> {
    pub w: &'a World,
    pub addr: Address,
    pub fl: Flavour,
    /// universe; by convention u[0] = owner/admin of the examples, u[1] = manager
    pub u: Vec<Address>,
    /// when set and the recipient of a `transfer` is a classic account (G...), the call names it
    /// as a multiplexed address with this id
    pub mux_to: std::cell::Cell<Option<u64>>,
}

/// A classic (ed25519) account address; only usable where authorizations are mocked.
pub fn g_account(e: &Env, seed: u8) -> Address {
    use soroban_sdk::xdr::{AccountId, PublicKey, ScAddress, ScVal, Uint256};
    use soroban_sdk::TryFromVal;
    let sc = ScVal::Address(ScAddress::Account(AccountId(PublicKey::PublicKeyTypeEd25519(Uint256([seed; 32])))));
    Address::try_from_val(e, &sc).expect("account address")
}

/// The multiplexed form (M...) of a classic account address; None for contract addresses.
pub fn muxed_val(e: &Env, a: &Address, id: u64) -> Option<Val> {
    use soroban_sdk::xdr::{AccountId, MuxedEd25519Account, PublicKey, ScAddress, ScVal};
    use soroban_sdk::TryFromVal;
    let sc: ScAddress = a.try_into().ok()?;
    match sc {
        ScAddress::Account(AccountId(PublicKey::PublicKeyTypeEd25519(k))) => {
            let m = ScVal::Address(ScAddress::MuxedAccount(MuxedEd25519Account { id, ed25519: k }));
            Val::try_from_val(e, &m).ok()
        }
        _ => None,
    }
}

pub const OWNER: usize = 0;
pub const MANAGER: usize = 1;

impl<'a> Token<'a> {
    /// Deploys flavour `fl`. Returns the token and the constructor's events (genesis of the log).
    pub fn deploy(w: &'a World, fl: Flavour, n: usize, initial: i128) -> (Token<'a>, Vec<Ev>) {
        Self::deploy_with(w, fl, n, initial, false)
    }
    /// `g_last`: the last address of the universe is a classic account (so that it can be named as a
    /// multiplexed recipient); only for workloads that mock authorizations.
    pub fn deploy_with(w: &'a World, fl: Flavour, n: usize, initial: i128, g_last: bool) -> (Token<'a>, Vec<Ev>) {
        let e = &w.env;
        let mut u = w.accounts(n);
        if g_last {
            u[n - 1] = g_account(e, 0x5A);
        }
        let name = SString::from_str(e, "T");
        let sym = SString::from_str(e, "T");
        e.mock_all_auths();
        let addr = match fl {
            Flavour::Base => e.register(TokBase, ()),
            Flavour::Allow => e.register(TokAllow, ()),
            Flavour::Block => e.register(TokBlock, ()),
            Flavour::Votes => e.register(TokVotes, ()),
            Flavour::ExPausable => {
                e.register(examples::fungible_pausable::ExampleContract, (name, sym, u[OWNER].clone(), initial))
            }
            Flavour::ExAllow => e.register(
                examples::fungible_allowlist::ExampleContract,
                (name, sym, u[OWNER].clone(), u[MANAGER].clone(), initial),
            ),
            Flavour::ExBlock => e.register(
                examples::fungible_blocklist::ExampleContract,
                (name, sym, u[OWNER].clone(), u[MANAGER].clone(), initial),
            ),
            Flavour::ExVotes => e.register(examples::fungible_votes::ExampleContract, (u[OWNER].clone(),)),
            Flavour::Rwa => {
                let comp = e.register(crate::contracts::rwa::MockCompliance, ());
                let idv = e.register(crate::contracts::rwa::MockIdentity, ());
                e.register(crate::contracts::rwa::RwaTok, (comp, idv))
            }
        };
        let evs = obs::events(e).into_iter().filter(|x| x.contract == addr).collect();
        (Token { w, addr, fl, u, mux_to: std::cell::Cell::new(None) }, evs)
    }
    /// Did the constructor mint `initial` to the owner?
    pub fn ctor_mints(fl: Flavour) -> bool {
        matches!(fl, Flavour::ExPausable | Flavour::ExAllow | Flavour::ExBlock)
    }
    pub fn env(&self) -> &Env {
        &self.w.env
    }
    pub fn call_args(&self, op: &Op) -> (&'static str, SVec<Val>) {
        let e = self.env();
        let u = &self.u;
        match op {
            Op::Mint { to, a } => ("mint", args!(e, u[*to], *a)),
            Op::Transfer { from, to, a } => match self.mux_to.get().and_then(|id| muxed_val(e, &u[*to], id)) {
                Some(m) => ("transfer", args!(e, u[*from], m, *a)),
                None => ("transfer", args!(e, u[*from], u[*to], *a)),
            },
            Op::TransferFrom { sp, from, to, a } => ("transfer_from", args!(e, u[*sp], u[*from], u[*to], *a)),
            Op::Approve { owner, sp, a, l } => ("approve", args!(e, u[*owner], u[*sp], *a, *l)),
            Op::Burn { from, a } => ("burn", args!(e, u[*from], *a)),
            Op::BurnFrom { sp, from, a } => ("burn_from", args!(e, u[*sp], u[*from], *a)),
        }
    }
    /// Execute with exactly the given signers authorizing this very call (None = mock all).
    pub fn exec(&self, op: &Op, signers: Option<&[usize]>) -> Result<(), Fail> {
        let (f, a) = self.call_args(op);
        match signers {
            None => self.env().mock_all_auths(),
            Some(s) => {
                let inv = Inv::new(&self.addr, f, a.clone());
                let entries: Vec<(Address, Inv)> = s.iter().map(|i| (self.u[*i].clone(), inv.clone())).collect();
                self.w.auth(&entries);
            }
        }
        self.w.reset_budget();
        invoke::<()>(self.env(), &self.addr, f, a)
    }
    /// List management (allow/disallow/block/unblock); wrappers are un-gated, examples need the manager.
    pub fn set_listed(&self, who: usize, listed: bool) -> Result<(), Fail> {
        let e = self.env();
        e.mock_all_auths();
        let f = match (self.fl.is_allow(), listed) {
            (true, true) => "allow_user",
            (true, false) => "disallow_user",
            (false, true) => "block_user",
            (false, false) => "unblock_user",
        };
        let a = match self.fl {
            Flavour::ExAllow | Flavour::ExBlock => args!(e, self.u[who], self.u[MANAGER]),
            _ => args!(e, self.u[who]),
        };
        invoke::<()>(e, &self.addr, f, a)
    }
    pub fn is_listed(&self, who: usize) -> bool {
        let e = self.env();
        let f = if self.fl.is_allow() { "allowed" } else { "blocked" };
        invoke::<bool>(e, &self.addr, f, args!(e, self.u[who])).unwrap()
    }
    pub fn balance(&self, i: usize) -> i128 {
        let e = self.env();
        invoke::<i128>(e, &self.addr, "balance", args!(e, self.u[i])).must("balance")
    }
    pub fn supply(&self) -> i128 {
        let e = self.env();
        invoke::<i128>(e, &self.addr, "total_supply", args!(e)).must("total_supply")
    }
    pub fn allowance(&self, o: usize, s: usize) -> i128 {
        let e = self.env();
        invoke::<i128>(e, &self.addr, "allowance", args!(e, self.u[o], self.u[s])).must("allowance")
    }
    /// Every observable of the token over the whole universe.
    pub fn observe(&self) -> FState {
        let n = self.u.len();
        let bal = (0..n).map(|i| self.balance(i)).collect();
        let mut allow = vec![0; n * n];
        for o in 0..n {
            for s in 0..n {
                allow[o * n + s] = self.allowance(o, s);
            }
        }
        FState { bal, supply: self.supply(), allow }
    }
    pub fn idx(&self, a: &Address) -> Option<usize> {
        self.u.iter().position(|x| x == a)
    }
}

/// Offline fold of a token's event log from genesis: mint / burn / transfer (clawback-free).
#[derive(Default)]
pub struct EventFold {
    pub log: Vec<(u32, String, Vec<usize>, i128)>,
}

impl EventFold {
    /// Append the balance-affecting events of one successful invocation; returns them.
    pub fn absorb(&mut self, tok: &Token, evs: &[Ev], ledger: u32) -> Vec<(String, Vec<usize>, i128)> {
        let env = tok.env();
        let mut out = vec![];
        for ev in evs.iter().filter(|x| x.contract == tok.addr) {
            let n = ev.name.as_str();
            if n == "mint" || n == "burn" || n == "transfer" {
                let parties: Vec<usize> = (0..ev.topics.len())
                    .map(|i| ev.addr(env, i).and_then(|a| tok.idx(&a)).unwrap_or(usize::MAX))
                    .collect();
                let amount = ev.i128("amount").unwrap_or(i128::MIN);
                self.log.push((ledger, n.to_string(), parties.clone(), amount));
                out.push((n.to_string(), parties, amount));
            }
        }
        out
    }
    /// Balances and supply reconstructed from the whole log; None if the log itself is inconsistent.
    pub fn fold(&self, n: usize) -> Result<(Vec<i128>, i128), String> {
        let mut bal = vec![0i128; n];
        let mut supply = 0i128;
        for (k, (_, name, p, a)) in self.log.iter().enumerate() {
            if p.iter().any(|i| *i >= n) {
                return Err(format!("event #{k} {name} names an address outside the universe"));
            }
            match name.as_str() {
                "mint" => {
                    bal[p[0]] += a;
                    supply += a;
                }
                "burn" => {
                    bal[p[0]] -= a;
                    supply -= a;
                }
                _ => {
                    bal[p[0]] -= a;
                    bal[p[1]] += a;
                }
            }
        }
        Ok((bal, supply))
    }
}

/// Amount generator biased to boundaries of the current state.
pub fn gen_amount(rng: &mut Rng, m: &FModel, from: Option<usize>, allow: Option<i128>) -> i128 {
    let mut c: Vec<i128> = vec![0, 1, 2, 5, 10, 1000, 1_000_000_007];
    if let Some(f) = from {
        let b = m.bal[f];
        c.extend([b, b.saturating_add(1), b.saturating_sub(1), b / 2, b / 3]);
    }
    if let Some(a) = allow {
        c.extend([a, a.saturating_add(1), a.saturating_sub(1), a / 2]);
    }
    match rng.below(20) {
        0 => *rng.pick(&crate::rng::lattice_i128()),
        1 => i128::MAX - m.supply,
        2 => (i128::MAX - m.supply).saturating_add(1),
        3 => (i128::MAX - m.supply).saturating_sub(1),
        4 => -(rng.below(5) as i128) - 1,
        5 => {
            let b = 1 + rng.below(126) as u32;
            rng.i128_bits(b)
        }
        _ => *rng.pick(&c),
    }
}

pub fn sym(e: &Env, s: &str) -> Symbol {
    Symbol::new(e, s)
}
