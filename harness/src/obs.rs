//! Observation helpers: events of the last invocation decoded from XDR.
use soroban_sdk::testutils::Events as _;
use soroban_sdk::xdr::{self, ScVal};
use soroban_sdk::{Address, Env, TryFromVal};

#[derive(Clone, Debug)]
pub struct Ev {
    pub contract: Address,
    pub name: String,
    /// topics after the event name
    pub topics: Vec<ScVal>,
    pub data: ScVal,
}

/// Contract events of the last invocation (empty after a failed one).
pub fn events(env: &Env) -> Vec<Ev> {
    let all = env.events().all();
    let mut out = vec![];
    for e in all.events() {
        let xdr::ContractEventBody::V0(b) = &e.body;
        let Some(cid) = &e.contract_id else { continue };
        let contract = Address::try_from_val(env, &ScVal::Address(xdr::ScAddress::Contract(cid.clone()))).unwrap();
        let topics: Vec<ScVal> = b.topics.iter().cloned().collect();
        let name = match topics.first() {
            Some(ScVal::Symbol(s)) => s.to_utf8_string_lossy(),
            _ => String::from("?"),
        };
        out.push(Ev { contract, name, topics: topics.into_iter().skip(1).collect(), data: b.data.clone() });
    }
    out
}

pub fn sc_addr(env: &Env, v: &ScVal) -> Option<Address> {
    match v {
        ScVal::Address(_) => Address::try_from_val(env, v).ok(),
        _ => None,
    }
}

pub fn sc_i128(v: &ScVal) -> Option<i128> {
    match v {
        ScVal::I128(p) => Some(((p.hi as i128) << 64) | p.lo as i128),
        _ => None,
    }
}

pub fn sc_u32(v: &ScVal) -> Option<u32> {
    match v {
        ScVal::U32(p) => Some(*p),
        _ => None,
    }
}

pub fn sc_u128(v: &ScVal) -> Option<u128> {
    match v {
        ScVal::U128(p) => Some(((p.hi as u128) << 64) | p.lo as u128),
        _ => None,
    }
}

/// Field of a map-shaped event payload.
pub fn field(data: &ScVal, name: &str) -> Option<ScVal> {
    if let ScVal::Map(Some(m)) = data {
        for e in m.iter() {
            if let ScVal::Symbol(s) = &e.key {
                if s.to_utf8_string_lossy() == name {
                    return Some(e.val.clone());
                }
            }
        }
    }
    None
}

impl Ev {
    pub fn addr(&self, env: &Env, i: usize) -> Option<Address> {
        self.topics.get(i).and_then(|v| sc_addr(env, v))
    }
    pub fn i128(&self, name: &str) -> Option<i128> {
        field(&self.data, name).and_then(|v| sc_i128(&v))
    }
}
