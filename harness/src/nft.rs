//! Shared engine for the NFT properties: C10 (ownership map, enumerations; mocked auth) and C11
//! (who may move a token; exact authorization sets, approvals and operators at expiry lattices).
use crate::args;
use crate::contracts::nft::{NftBase, NftCons, NftEnum};
use crate::examples;
use crate::report::Report;
use crate::rng::Rng;
use crate::world::{Must, invoke, tag, Fail, Inv, World};
use crate::Cfg;
use soroban_sdk::{Address, String as SString, Val, Vec as SVec};
use std::collections::{BTreeMap, BTreeSet};

#[derive(Clone, Copy, PartialEq, Eq, Debug)]
pub enum Fl {
    Base,
    BaseExplicit,
    Enum,
    EnumExplicit,
    Cons,
    ExSeq,
    ExEnum,
    ExCons,
    /// the votes extension: a fourth ContractType with its own transfer / burn paths (sequential ids)
    Votes,
}

pub const ALL: [Fl; 9] = [Fl::Base, Fl::BaseExplicit, Fl::Enum, Fl::EnumExplicit, Fl::Cons, Fl::ExSeq, Fl::ExEnum, Fl::ExCons, Fl::Votes];

impl Fl {
    pub fn name(&self) -> &'static str {
        match self {
            Fl::Base => "base-seq",
            Fl::BaseExplicit => "base-explicit",
            Fl::Enum => "enum-seq",
            Fl::EnumExplicit => "enum-explicit",
            Fl::Cons => "consecutive",
            Fl::ExSeq => "ex-sequential",
            Fl::ExEnum => "ex-enumerable",
            Fl::ExCons => "ex-consecutive",
            Fl::Votes => "votes-seq",
        }
    }
    fn is_cons(&self) -> bool {
        matches!(self, Fl::Cons | Fl::ExCons)
    }
    fn is_enum(&self) -> bool {
        matches!(self, Fl::Enum | Fl::EnumExplicit | Fl::ExEnum)
    }
    fn explicit(&self) -> bool {
        matches!(self, Fl::BaseExplicit | Fl::EnumExplicit)
    }
    fn example(&self) -> bool {
        matches!(self, Fl::ExSeq | Fl::ExEnum | Fl::ExCons)
    }
}

#[derive(Clone, Copy, PartialEq, Eq, Debug)]
pub enum Mode {
    Ownership,
    Auth,
}

#[derive(Clone, Debug)]
enum Op {
    Mint { to: usize, id: Option<u32> },
    Batch { to: usize, amount: u32 },
    Transfer { from: usize, to: usize, id: u32 },
    TransferFrom { sp: usize, from: usize, to: usize, id: u32 },
    Burn { from: usize, id: u32 },
    BurnFrom { sp: usize, from: usize, id: u32 },
    Approve { approver: usize, approved: usize, id: u32, l: u32 },
    ApproveAll { owner: usize, op: usize, l: u32 },
}

impl Op {
    fn name(&self) -> &'static str {
        match self {
            Op::Mint { .. } => "mint",
            Op::Batch { .. } => "batch_mint",
            Op::Transfer { .. } => "transfer",
            Op::TransferFrom { .. } => "transfer_from",
            Op::Burn { .. } => "burn",
            Op::BurnFrom { .. } => "burn_from",
            Op::Approve { .. } => "approve",
            Op::ApproveAll { .. } => "approve_for_all",
        }
    }
}

#[derive(Default, Clone, Debug)]
struct Model {
    owner: BTreeMap<u32, usize>,
    ever: BTreeSet<u32>,
    next_id: u32,
    approval: BTreeMap<u32, (usize, u32)>,
    operator: BTreeMap<(usize, usize), u32>,
}

impl Model {
    fn live_approval(&self, id: u32, cur: u32) -> Option<usize> {
        match self.approval.get(&id) {
            Some((a, l)) if *l >= cur => Some(*a),
            _ => None,
        }
    }
    fn live_operator(&self, o: usize, op: usize, cur: u32) -> bool {
        self.operator.get(&(o, op)).map_or(false, |l| *l >= cur)
    }
    fn may_spend(&self, sp: usize, from: usize, id: u32, cur: u32) -> bool {
        sp == from || self.live_approval(id, cur) == Some(sp) || self.live_operator(from, sp, cur)
    }
    fn balance(&self, a: usize) -> u32 {
        self.owner.values().filter(|o| **o == a).count() as u32
    }
}

struct Tok<'a> {
    w: &'a World,
    c: Address,
    fl: Fl,
    u: Vec<Address>,
}

impl<'a> Tok<'a> {
    fn owner_of(&self, id: u32) -> Option<usize> {
        let e = &self.w.env;
        invoke::<Address>(e, &self.c, "owner_of", args!(e, id)).ok().map(|a| self.u.iter().position(|x| *x == a).unwrap_or(usize::MAX))
    }
    fn balance(&self, a: usize) -> u32 {
        let e = &self.w.env;
        invoke(e, &self.c, "balance", args!(e, self.u[a])).must("balance")
    }
    fn approved(&self, id: u32) -> Option<usize> {
        let e = &self.w.env;
        let r: Option<Address> = invoke(e, &self.c, "get_approved", args!(e, id)).must("get_approved");
        r.map(|a| self.u.iter().position(|x| *x == a).unwrap_or(usize::MAX))
    }
    fn is_operator(&self, o: usize, op: usize) -> bool {
        let e = &self.w.env;
        invoke(e, &self.c, "is_approved_for_all", args!(e, self.u[o], self.u[op])).must("is_approved_for_all")
    }
}

const OWNER: usize = 0;

fn id_class(id: u32, m: &Model) -> &'static str {
    if !m.ever.contains(&id) && id >= m.next_id {
        "beyond"
    } else if id == 0 {
        "first"
    } else if id.checked_add(1) == Some(m.next_id) {
        "last"
    } else if id % 3200 == 0 || id % 3200 == 3199 {
        "bucket-edge"
    } else if id % 32 == 0 || id % 32 == 31 {
        "item-edge"
    } else {
        "interior"
    }
}

pub fn history(cfg: &Cfg, rep: &mut Report, fl: Fl, h: u64, steps: usize, mode: Mode) {
    let p = if mode == Mode::Ownership { "C10" } else { "C11" };
    let mut rng = Rng::for_history(cfg.seed, p, cfg.shard, h);
    rep.begin_history(h);
    let min_temp = if h % 2 == 0 { 1 } else { 16 };
    let w = World::new(100 + rng.below(30) as u32, min_temp);
    let e = &w.env;
    // four accounts and, as a fifth party, the token contract's OWN address: it can be named as owner,
    // recipient, approved account or operator like anybody else, but nothing can be signed in its name
    // (it is no account contract), so whatever it owns stays where it is
    let n = 5;
    let mut u = w.accounts(n);
    let s = |x: &str| SString::from_str(e, x);
    let c = match fl {
        Fl::Base | Fl::BaseExplicit => e.register(NftBase, ()),
        Fl::Votes => e.register(crate::contracts::nft::NftVotes, ()),
        Fl::Enum | Fl::EnumExplicit => e.register(NftEnum, ()),
        Fl::Cons => e.register(NftCons, ()),
        Fl::ExSeq => e.register(examples::nft_sequential::ExampleContract, (s("u/"), s("N"), s("N"), u[OWNER].clone())),
        Fl::ExEnum => e.register(examples::nft_enumerable::ExampleContract, (s("u/"), s("N"), s("N"), u[OWNER].clone())),
        Fl::ExCons => e.register(examples::nft_consecutive::ExampleContract, (s("u/"), s("N"), s("N"), u[OWNER].clone())),
    };
    u[n - 1] = c.clone();
    let u = u;
    let t = Tok { w: &w, c: c.clone(), fl, u: u.clone() };
    let mut m = Model::default();
    rep.op(format!("deploy nft {} min_temp_ttl={min_temp} ledger={}", fl.name(), w.ledger()));
    let big_batches = mode == Mode::Ownership && fl.is_cons() && (h % 4 == 3);
    let mut last_touched: Vec<u32> = vec![];
    let mut seq_ids: Vec<u32> = vec![];
    let mut large_done = 0u32;
    for step in 0..steps {
        // ---- ledger moves (approval / operator expiry lattices) ----
        if mode == Mode::Ownership && rng.chance(1, 60) {
            // owners, balances and enumerations must outlive any number of ledgers
            w.set_ledger(w.ledger() + 600_000);
            rep.op(format!("ledger -> {}", w.ledger()));
            rep.count("ledger_moves");
        }
        if mode == Mode::Auth && rng.chance(1, 5) {
            let cur = w.ledger();
            let mut ts: Vec<u32> = vec![cur + 1];
            for (_, (_, l)) in m.approval.iter() {
                if *l >= cur {
                    ts.extend([*l, l.saturating_add(1), l.saturating_add(min_temp)]);
                }
            }
            for (_, l) in m.operator.iter() {
                if *l >= cur {
                    ts.extend([*l, l.saturating_add(1), l.saturating_add(min_temp)]);
                }
            }
            // (rarely far beyond every lifetime extension: owners, balances, operators must not lapse early)
            let tl = if rng.chance(1, 25) { cur + 600_000 } else { *rng.pick(&ts) };
            if tl > cur && (tl < cur + 3000 || tl == cur + 600_000) {
                w.set_ledger(tl);
                rep.op(format!("ledger -> {tl}"));
                rep.count("ledger_moves");
            }
        }
        let cur = w.ledger();
        let max_live = e.ledger().max_live_until_ledger();
        let live_ids: Vec<u32> = m.owner.keys().cloned().collect();
        let pick_id = |rng: &mut Rng, m: &Model| -> u32 {
            if live_ids.is_empty() || rng.chance(1, 10) {
                // burned, beyond range, or arbitrary
                let c: Vec<u32> = vec![m.next_id, m.next_id.saturating_add(1), m.next_id.saturating_sub(1), 0, u32::MAX];
                let burned: Vec<u32> = m.ever.iter().filter(|i| !m.owner.contains_key(i)).cloned().collect();
                if !burned.is_empty() && rng.chance(1, 2) {
                    *rng.pick(&burned)
                } else {
                    *rng.pick(&c)
                }
            } else if rng.chance(1, 3) {
                // edges: first, last, item (32) and bucket (3200) edges, neighbours of what was touched
                let mut c: Vec<u32> = vec![live_ids[0], *live_ids.last().unwrap()];
                for k in &last_touched {
                    c.extend([k.saturating_sub(1), *k, k.saturating_add(1), k.saturating_add(2)]);
                }
                for e32 in [31u32, 32, 33, 63, 64] {
                    c.push(e32);
                }
                // every bucket edge (3200 ids per bucket) up to the largest batch
                for b in 1..=10u32 {
                    c.extend([b * 3200 - 1, b * 3200, b * 3200 + 1]);
                }
                let c: Vec<u32> = c.into_iter().filter(|i| m.owner.contains_key(i)).collect();
                if c.is_empty() {
                    *rng.pick(&live_ids)
                } else {
                    *rng.pick(&c)
                }
            } else {
                *rng.pick(&live_ids)
            }
        };
        let a_ = rng.idx(n);
        let b_ = if rng.chance(1, 6) { a_ } else { rng.idx(n) };
        let c_ = rng.idx(n);
        let lv = |rng: &mut Rng| -> u32 {
            match rng.below(26) {
                0 | 1 => 0,
                2 | 3 => cur.saturating_sub(1),
                4 | 5 => cur,
                6 | 7 => cur + 1,
                8 | 9 => cur + 2 + rng.below(10) as u32,
                // the longest lifetime the ledger allows, one beyond it, and the end of the ledger range
                10 => max_live,
                11 => max_live.saturating_add(1),
                12 => u32::MAX,
                _ => cur + rng.below(200) as u32,
            }
        };
        let want_mint = live_ids.len() < 3 || (mode == Mode::Ownership && rng.chance(1, 5)) || (mode == Mode::Auth && live_ids.len() < 8 && rng.chance(1, 8));
        let op = if want_mint {
            if fl.is_cons() {
                let sizes: &[u32] = if big_batches { &[3199, 3200, 3201, 100, 33] } else { &[1, 2, 3, 5, 31, 32, 33, 64, 100] };
                let mut amount = *rng.pick(sizes);
                if rng.chance(1, 25) {
                    amount = *rng.pick(&[0u32, 32_001]);
                }
                // one near-maximal batch per big-batch history, started off a bucket boundary, so that
                // a batch spanning 11 buckets exists; thorough adds more of them
                if big_batches && (m.next_id > 0 && m.next_id % 3200 != 0) && (large_done == 0 || (cfg.thorough() && rng.chance(1, 10))) {
                    amount = *rng.pick(&[28_801u32, 28_802, 30_000, 31_999, 32_000]);
                    large_done += 1;
                }
                Op::Batch { to: a_, amount }
            } else if fl.explicit() {
                // explicit fresh ids: spread, never reused
                // (one in eight near the top of the id space)
                let mut id = if rng.chance(1, 8) { u32::MAX - rng.below(40) as u32 } else { rng.below(5000) as u32 };
                while m.ever.contains(&id) {
                    id = id.wrapping_add(1);
                }
                Op::Mint { to: a_, id: Some(id) }
            } else {
                Op::Mint { to: a_, id: None }
            }
        } else {
            let id = pick_id(&mut rng, &m);
            let own = m.owner.get(&id).cloned();
            // the named `from` is usually the real owner, sometimes a former owner or a stranger
            let from = if rng.chance(4, 5) { own.unwrap_or(a_) } else { a_ };
            let k = rng.below(100);
            if mode == Mode::Ownership {
                match k {
                    0..=34 => Op::Transfer { from, to: b_, id },
                    35..=54 => Op::TransferFrom { sp: if rng.chance(1, 2) { from } else { c_ }, from, to: b_, id },
                    55..=74 => Op::Burn { from, id },
                    75..=84 => Op::BurnFrom { sp: if rng.chance(1, 2) { from } else { c_ }, from, id },
                    85..=92 => Op::Approve { approver: from, approved: c_, id, l: lv(&mut rng) },
                    _ => Op::ApproveAll { owner: from, op: c_, l: lv(&mut rng) },
                }
            } else {
                // spender roles: owner, approved, operator, former, stranger
                let sp = match rng.below(6) {
                    0 => from,
                    1 => m.approval.get(&id).map_or(c_, |x| x.0),
                    2 => m.operator.keys().filter(|(o, _)| *o == from).map(|(_, op)| *op).next().unwrap_or(c_),
                    _ => c_,
                };
                match k {
                    0..=14 => Op::Transfer { from, to: b_, id },
                    15..=39 => Op::TransferFrom { sp, from, to: b_, id },
                    40..=46 => Op::Burn { from, id },
                    47..=56 => Op::BurnFrom { sp, from, id },
                    57..=79 => Op::Approve { approver: if rng.chance(2, 3) { from } else { sp }, approved: c_, id, l: lv(&mut rng) },
                    _ => Op::ApproveAll { owner: a_, op: c_, l: lv(&mut rng) },
                }
            }
        };
        // ---- model verdict ----
        let (pre_ok, either): (bool, bool) = match &op {
            Op::Mint { .. } => (true, false),
            Op::Batch { amount, .. } => (*amount >= 1 && *amount <= 32_000, false),
            Op::Transfer { from, id, .. } | Op::Burn { from, id } => (m.owner.get(id) == Some(from), false),
            Op::TransferFrom { sp, from, id, .. } | Op::BurnFrom { sp, from, id } => (m.owner.get(id) == Some(from) && m.may_spend(*sp, *from, *id, cur), false),
            Op::Approve { approver, id, l, .. } => match m.owner.get(id) {
                Some(o) => ((o == approver || m.live_operator(*o, *approver, cur)) && (*l == 0 || (*l >= cur && *l <= max_live)), false),
                None => (false, false),
            },
            Op::ApproveAll { l, .. } => (*l == 0 || (*l >= cur && *l <= max_live), false),
        };
        let principal: Option<usize> = match &op {
            Op::Mint { .. } | Op::Batch { .. } => if fl.example() { Some(OWNER) } else { None },
            Op::Transfer { from, .. } | Op::Burn { from, .. } => Some(*from),
            Op::TransferFrom { sp, .. } | Op::BurnFrom { sp, .. } => Some(*sp),
            Op::Approve { approver, .. } => Some(*approver),
            Op::ApproveAll { owner, .. } => Some(*owner),
        };
        let (f, av): (&str, SVec<Val>) = match &op {
            Op::Mint { to, id: None } => (if fl.example() { "mint" } else { "mint_seq" }, args!(e, u[*to])),
            Op::Mint { to, id: Some(i) } => ("mint_id", args!(e, u[*to], *i)),
            Op::Batch { to, amount } => ("batch_mint", args!(e, u[*to], *amount)),
            Op::Transfer { from, to, id } => ("transfer", args!(e, u[*from], u[*to], *id)),
            Op::TransferFrom { sp, from, to, id } => ("transfer_from", args!(e, u[*sp], u[*from], u[*to], *id)),
            Op::Burn { from, id } => ("burn", args!(e, u[*from], *id)),
            Op::BurnFrom { sp, from, id } => ("burn_from", args!(e, u[*sp], u[*from], *id)),
            Op::Approve { approver, approved, id, l } => ("approve", args!(e, u[*approver], u[*approved], *id, *l)),
            Op::ApproveAll { owner, op, l } => ("approve_for_all", args!(e, u[*owner], u[*op], *l)),
        };
        let mut signers: Vec<usize> = vec![];
        let mut authorized = true;
        if mode == Mode::Auth {
            signers = if rng.chance(1, 2) {
                principal.into_iter().collect()
            } else {
                let mask = rng.below(1 << n);
                (0..n).filter(|i| mask >> i & 1 == 1).collect()
            };
            authorized = principal.map_or(true, |pr| pr != n - 1 && signers.contains(&pr));
            if principal == Some(n - 1) {
                rep.count("calls_needing_the_token_contracts_own_signature");
            }
            let inv = Inv::new(&c, f, av.clone());
            let entries: Vec<(Address, Inv)> = signers.iter().map(|i| (u[*i].clone(), inv.clone())).collect();
            w.auth(&entries);
        } else {
            e.mock_all_auths();
        }
        w.reset_budget();
        let got: Result<Val, Fail> = invoke(e, &c, f, av);
        rep.evaluations += 1;
        rep.op(format!("#{step} @{cur} {op:?}{} -> {}", if mode == Mode::Auth { format!(" signed by {signers:?}") } else { String::new() }, tag(&got)));
        if let Err(Fail::Budget) = got {
            rep.count("budget_errors");
        }
        rep.count(&format!("{}:{}", op.name(), tag(&got)));
        let site = format!("{}/{}", fl.name(), op.name());
        let want_ok = pre_ok && authorized;
        let tid = match &op {
            Op::Transfer { id, .. } | Op::TransferFrom { id, .. } | Op::Burn { id, .. } | Op::BurnFrom { id, .. } | Op::Approve { id, .. } => Some(*id),
            _ => None,
        };
        if mode == Mode::Ownership {
            rep.case(format!("{}/{}/{}/{}", fl.name(), op.name(), tid.map_or("-", |i| id_class(i, &m)), tag(&got)));
        } else {
            let role = match &op {
                Op::TransferFrom { sp, from, id, .. } | Op::BurnFrom { sp, from, id } => {
                    let own = m.owner.get(id);
                    if own == Some(sp) {
                        "owner"
                    } else if m.live_approval(*id, cur) == Some(*sp) {
                        if m.approval.get(id).map(|x| x.1) == Some(cur) {
                            "approved@L"
                        } else {
                            "approved"
                        }
                    } else if own == Some(from) && m.live_operator(*from, *sp, cur) {
                        if m.operator.get(&(*from, *sp)) == Some(&cur) {
                            "operator@L"
                        } else {
                            "operator"
                        }
                    } else if m.approval.get(id).map(|x| x.0) == Some(*sp) {
                        "expired-approved"
                    } else if m.operator.contains_key(&(*from, *sp)) {
                        "expired-or-foreign-operator"
                    } else {
                        "stranger"
                    }
                }
                Op::Approve { approver, id, .. } => {
                    let own = m.owner.get(id);
                    if own == Some(approver) {
                        "owner"
                    } else if own.map_or(false, |o| m.live_operator(*o, *approver, cur)) {
                        "operator"
                    } else {
                        "stranger"
                    }
                }
                Op::Transfer { from, id, .. } | Op::Burn { from, id } => {
                    if m.owner.get(id) == Some(from) {
                        "owner"
                    } else if m.ever.contains(id) {
                        "not-owner"
                    } else {
                        "no-token"
                    }
                }
                _ => "-",
            };
            rep.case(format!("{}/{}/{role}/auth={authorized}/{}", fl.name(), op.name(), tag(&got)));
            if got.is_ok() {
                rep.check("auth", authorized, &format!("C11/auth/{site}/succeeded-without-principal"), || {
                    format!("{op:?} at ledger {cur} succeeded; principal {principal:?}, signers {signers:?}")
                });
                if let Op::TransferFrom { sp, from, id, .. } | Op::BurnFrom { sp, from, id } = &op {
                    rep.check("spender", m.owner.get(id) == Some(from) && m.may_spend(*sp, *from, *id, cur), &format!("C11/spender/{site}/moved-by-unentitled-spender"), || {
                        format!("{op:?} at ledger {cur} succeeded; owner {:?}, approval {:?}, operators {:?}", m.owner.get(id), m.approval.get(id), m.operator)
                    });
                }
                if let Op::Approve { approver, id, .. } = &op {
                    let own = m.owner.get(id).cloned();
                    rep.check("spender", own.map_or(false, |o| o == *approver || m.live_operator(o, *approver, cur)), &format!("C11/spender/{site}/approval-set-by-unentitled-account"), || {
                        format!("{op:?} at ledger {cur} succeeded; owner {own:?}, operators {:?}", m.operator)
                    });
                }
            }
        }
        if !either {
            rep.check("ref", got.is_ok() == want_ok, &format!("{p}/ref/{site}/outcome"), || {
                format!("{op:?} at ledger {cur}{}: model expects ok={want_ok} (preconditions {pre_ok}, authorized {authorized}), contract answered {got:?}; owner {:?} approval {:?} operators {:?}", if mode == Mode::Auth { format!(" signed by {signers:?}") } else { String::new() }, tid.and_then(|i| m.owner.get(&i)), tid.and_then(|i| m.approval.get(&i)), m.operator)
            });
        }
        // ---- apply ----
        last_touched.clear();
        if got.is_ok() {
            match &op {
                Op::Mint { to, id } => {
                    let new_id = match id {
                        Some(i) => *i,
                        None => {
                            let r: u32 = <u32 as soroban_sdk::TryFromVal<_, Val>>::try_from_val(e, got.as_ref().unwrap()).unwrap_or(u32::MAX);
                            rep.check("ids", r == m.next_id && !m.ever.contains(&r), &format!("C10/ids/{site}/sequential-id-not-fresh"), || format!("sequential mint returned id {r}, expected {}", m.next_id));
                            if let Some(last) = seq_ids.last() {
                                rep.check("ids", r > *last, &format!("C10/ids/{site}/sequential-id-not-increasing"), || format!("sequential mint returned {r} after {last}"));
                            }
                            seq_ids.push(r);
                            m.next_id = r.wrapping_add(1);
                            r
                        }
                    };
                    m.owner.insert(new_id, *to);
                    m.ever.insert(new_id);
                    last_touched.push(new_id);
                }
                Op::Batch { to, amount } => {
                    let last: u32 = <u32 as soroban_sdk::TryFromVal<_, Val>>::try_from_val(e, got.as_ref().unwrap()).unwrap_or(u32::MAX);
                    let first = m.next_id;
                    rep.check("ids", last == first + amount - 1, &format!("C10/ids/{site}/batch-last-id"), || format!("batch of {amount} from {first} returned last id {last}"));
                    for i in first..first + amount {
                        m.owner.insert(i, *to);
                        m.ever.insert(i);
                    }
                    m.next_id = first + amount;
                    last_touched.extend([first, first + amount - 1]);
                }
                Op::Transfer { to, id, .. } | Op::TransferFrom { to, id, .. } => {
                    m.owner.insert(*id, *to);
                    m.approval.remove(id);
                    last_touched.push(*id);
                }
                Op::Burn { id, .. } | Op::BurnFrom { id, .. } => {
                    m.owner.remove(id);
                    m.approval.remove(id);
                    last_touched.push(*id);
                }
                Op::Approve { approved, id, l, .. } => {
                    if *l == 0 {
                        m.approval.remove(id);
                    } else {
                        m.approval.insert(*id, (*approved, *l));
                    }
                    last_touched.push(*id);
                }
                Op::ApproveAll { owner, op, l } => {
                    if *l == 0 {
                        m.operator.remove(&(*owner, *op));
                    } else {
                        m.operator.insert((*owner, *op), *l);
                    }
                }
            }
        }
        // ---- observation ----
        let range_end = if fl.explicit() { m.ever.iter().max().map_or(0, |x| x.saturating_add(1)) } else { m.next_id };
        let mut ids: BTreeSet<u32> = BTreeSet::new();
        let full = range_end <= 600 && (mode == Mode::Ownership || range_end <= 40);
        if fl.explicit() {
            for i in m.ever.iter() {
                ids.extend([i.saturating_sub(1), *i, i.saturating_add(1)]);
            }
        } else if full || (step % 25 == 24 && range_end <= 4000) || (step + 1 == steps && range_end <= 8000) {
            ids.extend(0..range_end + 8);
            rep.count("full_sweeps");
        } else {
            for k in &last_touched {
                ids.extend([k.saturating_sub(2), k.saturating_sub(1), *k, k.saturating_add(1), k.saturating_add(2)]);
            }
            for e32 in [0u32, 31, 32, 33] {
                ids.insert(e32);
            }
            for b in 1..=10u32 {
                if b * 3200 <= range_end + 1 {
                    ids.extend([b * 3200 - 1, b * 3200, b * 3200 + 1]);
                }
            }
            ids.extend([range_end.saturating_sub(1), range_end, range_end.saturating_add(1)]);
            // stratified sample over the range
            let k = if step + 1 == steps { 256 } else { 32 };
            for j in 0..k {
                let lo = (range_end as u64 * j / k) as u32;
                let hi = ((range_end as u64 * (j + 1) / k) as u32).max(lo + 1);
                ids.insert(lo + rng.below((hi - lo) as u64) as u32);
            }
            // explicit owners and burned ids are where the consecutive structure can go wrong
            for i in m.ever.iter().filter(|i| !m.owner.contains_key(i)).take(64) {
                ids.extend([i.saturating_sub(1), *i, i.saturating_add(1)]);
            }
        }
        let mut mism = 0;
        for i in ids.iter() {
            let o = t.owner_of(*i);
            let want = m.owner.get(i).cloned();
            if o != want {
                mism += 1;
                if mode == Mode::Ownership && mism <= 2 {
                    rep.violation(&format!("{}/ref/{site}/owner_of", "C10"), format!("after {op:?}: owner_of({i}) = {o:?}, model {want:?} (next_id {}, ever minted {}, live {})", m.next_id, m.ever.len(), m.owner.len()));
                }
            }
            if mode == Mode::Auth {
                let ap = t.approved(*i);
                let wa = if m.owner.contains_key(i) { m.live_approval(*i, cur) } else { None };
                rep.check("ref", ap == wa, &format!("C11/ref/{site}/get_approved"), || format!("after {op:?} at ledger {cur}: get_approved({i}) = {ap:?}, model {wa:?} ({:?})", m.approval.get(i)));
            }
        }
        if mode == Mode::Auth && mism > 0 {
            // ownership as such is C10's subject, with one exception that is C11's own: a token that the
            // call did not name and that now reports ANOTHER owner was moved without its owner's (or
            // anybody's) authorization for that token
            let named: Option<u32> = match &op {
                Op::Transfer { id, .. } | Op::TransferFrom { id, .. } | Op::Burn { id, .. } | Op::BurnFrom { id, .. } | Op::Approve { id, .. } => Some(*id),
                _ => None,
            };
            for i in ids.iter() {
                if let (Some(have), Some(want)) = (t.owner_of(*i), m.owner.get(i).cloned()) {
                    if have != want && Some(*i) != named && !matches!(op, Op::Mint { .. } | Op::Batch { .. }) {
                        rep.check("spender", false, &format!("C11/moved/{site}/token-changed-hands-without-being-named"), || format!("after {op:?} signed by {signers:?}: token {i} went from account {want} to account {have} although the call did not name it"));
                        break;
                    }
                }
            }
            // without an agreed owner the C11 oracle has no footing, so this history ends here
            rep.count("ownership_divergence_history_abandoned");
            break;
        }
        rep.count_n("assert:owner_of", ids.len() as u64);
        rep.count_n("owner_of_reads", ids.len() as u64);
        rep.evaluations += ids.len() as u64;
        if mode == Mode::Ownership || step % 4 == 0 {
            for a in 0..n {
                let b = t.balance(a);
                let wb = m.balance(a);
                rep.check("ref", b == wb, &format!("C10/ref/{site}/balance"), || format!("after {op:?}: balance({a}) = {b}, model owns {wb}"));
            }
        }
        if mode == Mode::Auth {
            for o in 0..n {
                for q in 0..n {
                    let g = t.is_operator(o, q);
                    let wv = m.live_operator(o, q, cur);
                    rep.check("ref", g == wv, &format!("C11/ref/{site}/is_approved_for_all"), || format!("after {op:?} at ledger {cur}: is_approved_for_all({o},{q}) = {g}, model {wv} ({:?})", m.operator.get(&(o, q))));
                }
            }
            // an approval never survives a transfer or burn
            if let (Some(i), true) = (tid, got.is_ok()) {
                if matches!(op, Op::Transfer { .. } | Op::TransferFrom { .. } | Op::Burn { .. } | Op::BurnFrom { .. }) {
                    let ap = t.approved(i);
                    rep.check("spender", ap.is_none(), &format!("C11/spender/{site}/approval-survived-move"), || format!("after {op:?}: get_approved({i}) = {ap:?}"));
                }
            }
        }
        // enumerations mirror ownership
        if fl.is_enum() && mode == Mode::Ownership {
            let ts: u32 = invoke(e, &c, "total_supply", args!(e)).must("total_supply");
            rep.check("inv", ts as usize == m.owner.len(), &format!("C10/inv/{site}/total_supply"), || format!("total_supply {ts}, live tokens {}", m.owner.len()));
            if ts <= 300 {
                let mut glob: Vec<u32> = vec![];
                for i in 0..ts {
                    match invoke::<u32>(e, &c, "get_token_id", args!(e, i)) {
                        Ok(x) => glob.push(x),
                        Err(f) => rep.violation(&format!("C10/inv/{site}/global-enumeration-gap"), format!("get_token_id({i}) with supply {ts}: {f:?}")),
                    }
                }
                let mut sorted = glob.clone();
                sorted.sort();
                let want: Vec<u32> = m.owner.keys().cloned().collect();
                rep.check("inv", sorted == want, &format!("C10/inv/{site}/global-enumeration-not-a-permutation"), || format!("global list {glob:?}, live tokens {want:?}"));
                let beyond = invoke::<u32>(e, &c, "get_token_id", args!(e, ts));
                rep.check("inv", beyond.is_err(), &format!("C10/inv/{site}/global-index-supply-answered"), || format!("get_token_id({ts}) = {beyond:?}"));
                for a in 0..n {
                    let bal = m.balance(a);
                    let mut lst: Vec<u32> = vec![];
                    for i in 0..bal {
                        match invoke::<u32>(e, &c, "get_owner_token_id", args!(e, u[a], i)) {
                            Ok(x) => lst.push(x),
                            Err(f) => rep.violation(&format!("C10/inv/{site}/owner-enumeration-gap"), format!("get_owner_token_id({a},{i}) with balance {bal}: {f:?}")),
                        }
                    }
                    let mut sl = lst.clone();
                    sl.sort();
                    let want: Vec<u32> = m.owner.iter().filter(|(_, o)| **o == a).map(|(i, _)| *i).collect();
                    rep.check("inv", sl == want, &format!("C10/inv/{site}/owner-enumeration-not-a-permutation"), || format!("list of {a}: {lst:?}, owns {want:?}"));
                    let beyond = invoke::<u32>(e, &c, "get_owner_token_id", args!(e, u[a], bal));
                    rep.check("inv", beyond.is_err(), &format!("C10/inv/{site}/owner-index-balance-answered"), || format!("get_owner_token_id({a},{bal}) = {beyond:?}"));
                }
                rep.evaluations += (ts + 6) as u64;
            }
        }
        // token_uri exists iff the token does (touched ids only)
        if mode == Mode::Ownership {
            for i in last_touched.iter().take(2) {
                let r: Result<SString, Fail> = invoke(e, &c, "token_uri", args!(e, *i));
                rep.check("ref", r.is_ok() == m.owner.contains_key(i), &format!("C10/ref/{site}/token_uri"), || format!("token_uri({i}) = {r:?}, token exists: {}", m.owner.contains_key(i)));
            }
        }
        let _ = t.fl;
    }
    rep.end_history();
}
