//! Env construction, ledger control, exact-authorization builder, call-outcome classification.
use soroban_sdk::testutils::{Address as _, Ledger as _, LedgerInfo, MockAuthContract};
use soroban_sdk::xdr;
use soroban_sdk::{Address, Env, IntoVal, InvokeError, TryFromVal, Val, Vec as SVec};
use std::cell::Cell;

/// Per-invocation budget: ~500x the mainnet CPU limit and 1 GiB of memory. Resource ceilings are
/// outside every property, but an *unlimited* budget lets a contract that loops for ever (seen with a
/// seeded change in `bind_tokens`) eat all memory and take the shard, and what it had already
/// observed, down with it. A call that exhausts this budget is classified `Fail::Budget` and makes
/// the run inconclusive unless a violation was recorded.
pub const CPU_LIMIT: u64 = 50_000_000_000;
pub const MEM_LIMIT: u64 = 1 << 30;

thread_local! {
    static BUDGET_SCALE: Cell<u64> = Cell::new(1);
}

/// Capacity runs (a registry driven to its documented limit of 10 000 entries) legitimately need more
/// than the default per-invocation budget; they multiply it for their own duration.
pub fn set_budget_scale(k: u64) {
    BUDGET_SCALE.with(|b| b.set(k.max(1)));
}

pub fn reset_budget(env: &Env) {
    let k = BUDGET_SCALE.with(|b| b.get());
    env.cost_estimate().budget().reset_limits(CPU_LIMIT.saturating_mul(k), MEM_LIMIT.saturating_mul(k));
}

pub struct World {
    pub env: Env,
    nonce: Cell<i64>,
}

pub const MAX_ENTRY_TTL: u32 = 3_110_400; // SDK default order of magnitude; see LedgerInfo below

impl World {
    /// `min_temp` = LedgerInfo.min_temp_entry_ttl (1 => storage lifetime of a temporary entry equals the requested one).
    pub fn new(start_ledger: u32, min_temp: u32) -> World {
        let env = Env::default();
        env.ledger().set(LedgerInfo {
            protocol_version: 25,
            sequence_number: start_ledger,
            timestamp: 1_700_000_000,
            network_id: [7u8; 32],
            base_reserve: 10,
            min_temp_entry_ttl: min_temp,
            min_persistent_entry_ttl: 1 << 30,
            max_entry_ttl: (1 << 30) + 1,
        });
        env.cost_estimate().disable_resource_limits();
        reset_budget(&env);
        World { env, nonce: Cell::new(1) }
    }
    /// World with an explicit max_entry_ttl (bounds `live_until` arguments checked by the library).
    pub fn with_ttl(start_ledger: u32, min_temp: u32, max_ttl: u32) -> World {
        let w = World::new(start_ledger, min_temp);
        let mut li = w.env.ledger().get();
        li.max_entry_ttl = max_ttl;
        li.min_persistent_entry_ttl = max_ttl - 1;
        w.env.ledger().set(li);
        w
    }
    pub fn ledger(&self) -> u32 {
        self.env.ledger().sequence()
    }
    pub fn set_ledger(&self, seq: u32) {
        let mut li = self.env.ledger().get();
        li.sequence_number = seq;
        self.env.ledger().set(li);
    }
    pub fn set_time(&self, ts: u64) {
        let mut li = self.env.ledger().get();
        li.timestamp = ts;
        self.env.ledger().set(li);
    }
    pub fn reset_budget(&self) {
        reset_budget(&self.env);
    }
    /// A plain account-like address backed by a contract whose `__check_auth` accepts everything;
    /// whether it authorizes a call is decided solely by the entries given to `auth`.
    pub fn account(&self) -> Address {
        let a = Address::generate(&self.env);
        self.env.register_at(&a, MockAuthContract, ());
        a
    }
    pub fn accounts(&self, n: usize) -> Vec<Address> {
        (0..n).map(|_| self.account()).collect()
    }
    fn next_nonce(&self) -> i64 {
        let n = self.nonce.get();
        self.nonce.set(n + 1);
        n
    }
    /// Install exactly these authorizations for the next invocation (nothing else is authorized).
    pub fn auth(&self, entries: &[(Address, Inv)]) {
        let v: Vec<xdr::SorobanAuthorizationEntry> =
            entries.iter().map(|(a, i)| self.entry(a, i, xdr::ScVal::Void)).collect();
        self.env.set_auths(&v);
    }
    pub fn no_auth(&self) {
        self.env.set_auths(&[]);
    }
    pub fn entry(&self, who: &Address, inv: &Inv, signature: xdr::ScVal) -> xdr::SorobanAuthorizationEntry {
        xdr::SorobanAuthorizationEntry {
            root_invocation: inv.to_xdr(),
            credentials: xdr::SorobanCredentials::Address(xdr::SorobanAddressCredentials {
                address: who.try_into().unwrap(),
                nonce: self.next_nonce(),
                signature_expiration_ledger: self.ledger().saturating_add(1000),
                signature,
            }),
        }
    }
}

/// One node of an authorized invocation tree.
#[derive(Clone)]
pub struct Inv {
    pub contract: Address,
    pub func: String,
    pub args: SVec<Val>,
    pub subs: Vec<Inv>,
}

impl Inv {
    pub fn new(contract: &Address, func: &str, args: SVec<Val>) -> Inv {
        Inv { contract: contract.clone(), func: func.to_string(), args, subs: vec![] }
    }
    pub fn with(mut self, sub: Inv) -> Inv {
        self.subs.push(sub);
        self
    }
    pub fn to_xdr(&self) -> xdr::SorobanAuthorizedInvocation {
        xdr::SorobanAuthorizedInvocation {
            function: xdr::SorobanAuthorizedFunction::ContractFn(xdr::InvokeContractArgs {
                contract_address: (&self.contract).try_into().unwrap(),
                function_name: self.func.as_str().try_into().unwrap(),
                args: self.args.clone().try_into().unwrap(),
            }),
            sub_invocations: self.subs.iter().map(|s| s.to_xdr()).collect::<Vec<_>>().try_into().unwrap(),
        }
    }
}

/// Build an argument vector: `args!(env, a, b, c)`.
#[macro_export]
macro_rules! args {
    ($env:expr $(, $a:expr)* $(,)?) => {{
        let mut v: soroban_sdk::Vec<soroban_sdk::Val> = soroban_sdk::Vec::new($env);
        $( v.push_back(soroban_sdk::IntoVal::into_val(&$a, $env)); )*
        v
    }};
}

/// Classified failure of an invocation.
#[derive(Clone, Debug, PartialEq, Eq, Hash, PartialOrd, Ord)]
pub enum Fail {
    /// `panic_with_error!` / returned contract error code
    Contract(u32),
    /// host refused `require_auth`
    Auth,
    /// Rust panic / arithmetic overflow / unreachable inside the contract
    Trap,
    /// other host error (type, code) as text
    Host(String),
    /// budget exceeded: never a verdict
    Budget,
}

impl Fail {
    pub fn tag(&self) -> String {
        match self {
            Fail::Contract(c) => format!("E{c}"),
            Fail::Auth => "Auth".into(),
            Fail::Trap => "Trap".into(),
            Fail::Host(s) => format!("Host({s})"),
            Fail::Budget => "Budget".into(),
        }
    }
}

thread_local! {
    pub static LAST_ERROR: std::cell::RefCell<String> = std::cell::RefCell::new(String::new());
}

/// Payload of the panic raised by [`Must::must`]: a query the property says is always answered was
/// refused. `main` turns it into a violation `<property>/query/<what>/refused` (the shard's remaining
/// histories are lost, the verdict is not).
pub struct QueryRefused {
    pub what: String,
    pub err: String,
}

pub trait Must<T> {
    /// For read-only queries that the reference model says must be answered.
    fn must(self, what: &str) -> T;
}

impl<T> Must<T> for Result<T, Fail> {
    fn must(self, what: &str) -> T {
        match self {
            Ok(v) => v,
            Err(e) => std::panic::panic_any(QueryRefused { what: what.to_string(), err: format!("{e:?} ({})", last_error()) }),
        }
    }
}

/// Raw host error of the last failed invocation (diagnostics only).
pub fn last_error() -> String {
    LAST_ERROR.with(|l| l.borrow().clone())
}

pub fn classify_error(err: soroban_sdk::Error) -> Fail {
    LAST_ERROR.with(|l| *l.borrow_mut() = format!("{err:?}"));
    use soroban_sdk::xdr::{ScErrorCode, ScErrorType};
    if err.is_type(ScErrorType::Contract) {
        return Fail::Contract(err.get_code());
    }
    if err.is_type(ScErrorType::Auth) {
        return Fail::Auth;
    }
    if err.is_type(ScErrorType::Budget) {
        return Fail::Budget;
    }
    // A Rust panic inside a natively registered contract surfaces as (Context, InvalidAction);
    // in a wasm build it would be (WasmVm, InvalidAction).
    if (err.is_type(ScErrorType::WasmVm) || err.is_type(ScErrorType::Context)) && err.is_code(ScErrorCode::InvalidAction) {
        return Fail::Trap;
    }
    Fail::Host(format!("{:?}", err))
}

/// Outcome of a `try_*` client call whose declared error type is `soroban_sdk::Error`.
pub fn outcome<T, C>(r: Result<Result<T, C>, Result<soroban_sdk::Error, InvokeError>>) -> Result<T, Fail> {
    match r {
        Ok(Ok(v)) => Ok(v),
        Ok(Err(_)) => Err(Fail::Host("return-value-conversion".into())),
        Err(Ok(e)) => Err(classify_error(e)),
        Err(Err(InvokeError::Abort)) => Err(Fail::Trap),
        Err(Err(InvokeError::Contract(c))) => Err(Fail::Contract(c)),
    }
}

/// Generic invocation by name with classification (for contracts without a typed client).
pub fn invoke<T: TryFromVal<Env, Val>>(env: &Env, contract: &Address, func: &str, args: SVec<Val>) -> Result<T, Fail> {
    reset_budget(env);
    let r = env.try_invoke_contract::<T, soroban_sdk::Error>(contract, &soroban_sdk::Symbol::new(env, func), args);
    outcome(r)
}

pub fn tag<T>(r: &Result<T, Fail>) -> String {
    match r {
        Ok(_) => "ok".into(),
        Err(f) => f.tag(),
    }
}

pub fn short(a: &Address, pool: &[Address]) -> String {
    match pool.iter().position(|p| p == a) {
        Some(i) => format!("A{i}"),
        None => "X".to_string(),
    }
}

#[allow(dead_code)]
pub fn into_val<T: IntoVal<Env, Val>>(env: &Env, t: &T) -> Val {
    t.into_val(env)
}
